"""C08 translator: live Python source of the formula classes  ->  PExpr terms (Lean text).

A small symbolic interpreter over the `ast` of the LIVE source (inspect.getsource) of
    formula/formula.py, covariant.py, basic.py, elementary.py, sdct.py, calculators/dynamic.py (Formula classes)
    and of the Data_K methods D_H, Dcov, get_A_H, get_E1, get_O1, get_M1, get_E2, get_Bln.
`__init__`, `nn`, `ln`, `nl`, `ll`, `trace`, `trace_ln`, `symsumm` ... are EXECUTED symbolically: band-matrix valued numpy
arrays are replaced by PExpr nodes, everything else (flags, signs, strings, loops over literal tuples, kwargs) is
ordinary Python data and is computed concretely, so the branch structure (internal/external terms, sign, SHC type, SDCT
switches) is the one of the live code for the given kwargs.

What is TRUSTED (the mapping numpy -> PExpr; everything here is grade-neutral bookkeeping except the marked lines):
  cached_einsum(sub, a, b, ...)   -> mul a (mul b ...)   (the subscript string is NOT interpreted: any einsum is a
                                     real-multilinear map; a single operand gives `lin`; real constant arrays such as
                                     delta_f are dropped)
  x * y (both arrays) -> hmul ;  number * x -> mul (const q) x ;  1j -> I ;  x / number -> mul (const 1/q) x ;  +,- -> add, neg
  x.real / np.real -> re ;  x.imag / np.imag -> im ;  x.conj() / np.conj -> conjE
  x[...], swapaxes, transpose, sum(axis), reshape, diagonal, copy, np.array(x) -> lin   (eps slices alpha_A / beta_A get
                                     their own tags; none of this affects the grade)
  np.zeros -> zero ;  np.eye -> const 1
  functions of the band energies (E_K, dEig_inv, differences, powers, sdct_kron) -> emask (.. (const 1)): even, real
  X[sdct_is_degen(..)] = 0 -> emask NKRON X
  B[..., alpha_A, beta_A] += m  -> B + lin EPS m
  Data_K natives (NOT translated, modelled as in WB/Model/C08.lean): Xbar(name, der) -> bar name der;
      covariant(name, commader, gender) -> Matrix_ln / Matrix_GenDer_ln objects built by executing the LIVE constructors;
      V_covariant -> Matrix_ln(Xbar('Ham',1)) with ln() = zeros;  E_K, dEig_inv, delE_K = re(diag Xbar('Ham',1));
      _R_to_k_H(get_R_mat(name)) -> bar name 0;  _spin_velocity_einsum_opt(C, A, B) -> C += A.B
"""
import ast
import inspect
import textwrap
from fractions import Fraction

import numpy as np


class Untranslatable(Exception):
    pass


class _Unknown:
    """a value the translation does not track (shapes, counts); absorbs arithmetic"""
    def __repr__(self):
        return "Unknown"


UNKNOWN = _Unknown()

LEAN_NAMES = {"Ham", "AA", "BB", "CC", "CCab", "FF", "GG", "OO", "SS", "SH", "SA", "SHA", "SR", "SHR", "rotAA", "rotAAab",
              "CCab_antisym"}
TAG = dict(NN=1, LN=2, SWAP=3, ALPHA=4, BETA=5, TRACE=6, AX=7, EPS=8, DELTA=9, DIAG=10, SEL=11, TRANSP=12, PAIRSUM=13)
MASK = dict(DEINV=1, EAV=2, EDIFF=3, KRON=4, NKRON=5, PVAL=6, EFUN=7)


class Pool:
    """hash-consed PExpr nodes"""

    def __init__(self):
        self.ids = {}
        self.nodes = []

    def mk(self, *node):
        i = self.ids.get(node)
        if i is None:
            i = len(self.nodes)
            self.ids[node] = i
            self.nodes.append(node)
        return i


class Sym:
    """a band-matrix valued array, symbolically; `efun` = a real function of the band energies only"""
    __slots__ = ("pool", "n", "efun")

    def __init__(self, pool, n, efun=False):
        self.pool, self.n, self.efun = pool, n, efun

    def __repr__(self):
        return f"Sym({self.n})"


class Idx:
    """opaque index argument (ik, inn, out, inn1, inn2)"""
    def __init__(self, name):
        self.name = name


class MaskMarker:
    pass


class RMatMarker:
    def __init__(self, name):
        self.name = name


class SymObj:
    """symbolic instance of a (live) Formula class"""
    def __init__(self, cls):
        self.cls = cls
        self.attrs = {}
        self.native = {}


class BoundMethod:
    def __init__(self, obj, func, owner):
        self.obj, self.func, self.owner = obj, func, owner


class SuperProxy:
    def __init__(self, obj, after):
        self.obj, self.after = obj, after


class NativeMethod:
    def __init__(self, fn):
        self.fn = fn


def has_sym(v, depth=0):
    if isinstance(v, (Sym, SymObj, Idx, _Unknown, MaskMarker, RMatMarker, BoundMethod, SuperProxy, SymDataK, NativeMethod)):
        return True
    if depth < 4:
        if isinstance(v, (list, tuple, set)):
            return any(has_sym(x, depth + 1) for x in v)
        if isinstance(v, dict):
            return any(has_sym(x, depth + 1) for x in v.values())
    return False


class _Return(Exception):
    def __init__(self, value):
        self.value = value


class Frame:
    def __init__(self, func, self_obj, owner):
        self.locals = {}
        self.globals = func.__globals__
        self.owner = owner
        self.self_obj = self_obj


_SRC_CACHE = {}


def func_ast(func):
    func = getattr(func, "__wrapped__", func)
    key = func
    if key not in _SRC_CACHE:
        lines = [l for l in inspect.getsource(func).split("\n") if not l.lstrip().startswith("#")]
        src = textwrap.dedent("\n".join(lines))
        tree = ast.parse(src)
        _SRC_CACHE[key] = tree.body[0]
    return _SRC_CACHE[key], func


class Translator:
    def __init__(self):
        self.pool = Pool()
        self.datak = SymDataK(self)
        self.steps = 0
        self.memo = {}
        import wannierberri.utility as util
        self.alpha_A, self.beta_A = util.alpha_A, util.beta_A

    # ---------------------------------------------------------------- node constructors
    def sym(self, *node, efun=False):
        return Sym(self.pool, self.pool.mk(*node), efun)

    def zero(self):
        return self.sym("zero")

    def const(self, x):
        if isinstance(x, bool):
            x = int(x)
        q = Fraction(x).limit_denominator(10 ** 6) if not isinstance(x, Fraction) else x
        return self.sym("const", q.numerator, q.denominator, efun=True)

    def I(self):
        return self.sym("I")

    def number(self, z):
        """python number -> Sym"""
        if isinstance(z, (np.floating, np.integer)):
            z = z.item()
        if isinstance(z, complex):
            if z.imag == 0:
                return self.const(z.real)
            im = self.mul(self.const(z.imag), self.I())
            return im if z.real == 0 else self.add(self.const(z.real), im)
        return self.const(z)

    def lift(self, v):
        if isinstance(v, Sym):
            return v
        if isinstance(v, (int, float, complex, np.floating, np.integer, np.complexfloating)) and not isinstance(v, bool):
            return self.number(v)
        if isinstance(v, np.ndarray) and v.ndim == 0:
            return self.number(v.item())
        raise Untranslatable(f"cannot use {type(v).__name__} as an array")

    def add(self, a, b):
        return self.sym("add", a.n, b.n, efun=a.efun and b.efun and self._real(a) and self._real(b))

    def neg(self, a):
        return self.sym("neg", a.n, efun=a.efun)

    def mul(self, a, b):
        return self.sym("mul", a.n, b.n, efun=a.efun and b.efun)

    def hmul(self, a, b):
        return self.sym("hmul", a.n, b.n, efun=a.efun and b.efun)

    def _real(self, a):
        return True

    def lin(self, tag, a):
        if a.efun:
            return a                     # an index operation on a function of the energies is a function of the energies
        node = self.pool.nodes[a.n]
        if node[0] == "lin" and node[1] == TAG["AX"] and tag == TAG["AX"]:
            return a
        return self.sym("lin", tag, a.n)

    def efun(self):
        return self.sym("emask", MASK["EFUN"], self.const(1).n, efun=True)

    def emask(self, tag, a):
        return self.sym("emask", tag, a.n, efun=a.efun)

    def re(self, a):
        return self.sym("re", a.n, efun=a.efun)

    def im(self, a):
        return self.sym("im", a.n)

    def conjE(self, a):
        return a if a.efun else self.sym("conjE", a.n)

    def bar(self, name, der):
        if name not in LEAN_NAMES:
            raise Untranslatable(f"matrix name {name!r} has no Lean counterpart")
        if not isinstance(der, int):
            raise Untranslatable("non-integer derivative order")
        return self.sym("bar", name, der)

    # ---------------------------------------------------------------- arithmetic on values
    def binop(self, op, a, b):
        if isinstance(a, _Unknown) or isinstance(b, _Unknown):
            if isinstance(a, Sym) or isinstance(b, Sym):
                raise Untranslatable("array combined with an untracked value")
            return UNKNOWN
        if not (isinstance(a, Sym) or isinstance(b, Sym)):
            try:
                return _PYOPS[type(op)](a, b)      # plain python data (possibly containers holding symbolic items)
            except Exception:  # noqa
                raise Untranslatable(f"operator {type(op).__name__} on {type(a).__name__}, {type(b).__name__}")
        # real constant numpy arrays of shape != () are not expected here
        if isinstance(op, ast.Add):
            return self.add(self.lift(a), self.lift(b))
        if isinstance(op, ast.Sub):
            return self.add(self.lift(a), self.neg(self.lift(b)))
        if isinstance(op, ast.Mult):
            A, B = self.lift(a), self.lift(b)
            if not isinstance(a, Sym) or not isinstance(b, Sym) or self._is_scalar(A) or self._is_scalar(B):
                return self.mul(A, B)
            return self.hmul(A, B)
        if isinstance(op, ast.MatMult):
            return self.mul(self.lift(a), self.lift(b))
        if isinstance(op, ast.Div):
            if isinstance(b, Sym):
                if b.efun and (not isinstance(a, Sym) or a.efun):
                    return self.efun()                      # 1 / (function of the energies)
                if b.efun:
                    return self.hmul(self.lift(a), self.efun())
                raise Untranslatable("division by an array")
            return self.mul(self.const(Fraction(1) / Fraction(b).limit_denominator(10 ** 6)), self.lift(a))
        if isinstance(op, ast.Pow):
            if isinstance(a, Sym) and a.efun:
                return self.efun()
            raise Untranslatable("power of an array")
        raise Untranslatable(f"operator {type(op).__name__} on arrays")

    def _is_scalar(self, s):
        return self.pool.nodes[s.n][0] in ("const", "I")

    # ---------------------------------------------------------------- symbolic execution
    def call_function(self, func, args, kwargs, self_obj=None, owner=None):
        self.steps += 1
        if self.steps > 200000:
            raise Untranslatable("too many interpretation steps")
        node, func = func_ast(func)
        if not isinstance(node, ast.FunctionDef):
            raise Untranslatable("not a plain function")
        fr = Frame(func, self_obj, owner)
        a = node.args
        params = [p.arg for p in a.args]
        if a.posonlyargs or a.kwonlyargs:
            raise Untranslatable("positional-only / keyword-only parameters")
        vals = list(args)
        if self_obj is not None:
            vals = [self_obj] + vals
        defaults = a.defaults
        ndef = len(defaults)
        kwargs = dict(kwargs)
        for i, pname in enumerate(params):
            if i < len(vals):
                fr.locals[pname] = vals[i]
            elif pname in kwargs:
                fr.locals[pname] = kwargs.pop(pname)
            else:
                j = i - (len(params) - ndef)
                if j < 0:
                    raise Untranslatable(f"missing argument {pname} of {func.__name__}")
                fr.locals[pname] = self.eval(defaults[j], Frame(func, None, owner))
        if len(vals) > len(params):
            if a.vararg is None:
                raise Untranslatable("too many positional arguments")
            fr.locals[a.vararg.arg] = tuple(vals[len(params):])
        elif a.vararg is not None:
            fr.locals[a.vararg.arg] = ()
        if a.kwarg is not None:
            fr.locals[a.kwarg.arg] = kwargs
        elif kwargs:
            raise Untranslatable(f"unexpected keyword arguments {sorted(kwargs)} for {func.__name__}")
        try:
            self.exec_block(node.body, fr)
        except _Return as r:
            return r.value
        return None

    def exec_block(self, stmts, fr):
        for st in stmts:
            self.exec(st, fr)

    def exec(self, st, fr):
        if isinstance(st, ast.Expr):
            if isinstance(st.value, ast.Constant):
                return                      # docstring
            # in-place helper of covariant.py
            if isinstance(st.value, ast.Call) and isinstance(st.value.func, ast.Name) and \
                    st.value.func.id == "_spin_velocity_einsum_opt" and isinstance(st.value.args[0], ast.Name):
                C, A, B = (self.eval(x, fr) for x in st.value.args)
                fr.locals[st.value.args[0].id] = self.add(self.lift(C), self.mul(self.lift(A), self.lift(B)))
                return
            self.eval(st.value, fr)
        elif isinstance(st, ast.Assign):
            val = self.eval(st.value, fr)
            for tg in st.targets:
                self.assign(tg, val, fr)
        elif isinstance(st, ast.AugAssign):
            cur = self.eval_target_value(st.target, fr)
            val = self.eval(st.value, fr)
            if isinstance(st.target, ast.Subscript):
                base = self.eval(st.target.value, fr)
                if isinstance(base, Sym):
                    idx = self.eval(st.target.slice, fr)
                    if not self._has_eps(idx):
                        raise Untranslatable("in-place update of a slice")
                    upd = self.lin(TAG["EPS"], self.lift(val))
                    if isinstance(st.op, ast.Sub):
                        upd = self.neg(upd)
                    elif not isinstance(st.op, ast.Add):
                        raise Untranslatable("in-place slice update other than += / -=")
                    self.assign(st.target.value, self.add(base, upd), fr)
                    return
            self.assign(st.target, self.binop(st.op, cur, val), fr)
        elif isinstance(st, ast.If):
            c = self.eval(st.test, fr)
            if has_sym(c) and not isinstance(c, (SymObj, list, tuple, dict)):
                raise Untranslatable("branch on an untracked value")
            self.exec_block(st.body if c else st.orelse, fr)
        elif isinstance(st, ast.For):
            it = self.eval(st.iter, fr)
            if isinstance(it, (Sym, _Unknown, Idx)) or not hasattr(it, "__iter__"):
                raise Untranslatable("loop over an untracked iterable")
            for x in it:
                self.assign(st.target, x, fr)
                self.exec_block(st.body, fr)
            self.exec_block(st.orelse, fr)
        elif isinstance(st, ast.Return):
            raise _Return(None if st.value is None else self.eval(st.value, fr))
        elif isinstance(st, (ast.Pass, ast.Assert)):
            return
        elif isinstance(st, ast.Raise):
            raise Untranslatable("the body raises (" + ast.unparse(st)[:80] + ")")
        else:
            raise Untranslatable(f"statement {type(st).__name__}")

    def _has_eps(self, idx):
        items = idx if isinstance(idx, tuple) else (idx,)
        return any(x is self.alpha_A or x is self.beta_A for x in items)

    def eval_target_value(self, tg, fr):
        return self.eval(tg, fr)

    def assign(self, tg, val, fr):
        if isinstance(tg, ast.Name):
            fr.locals[tg.id] = val
        elif isinstance(tg, (ast.Tuple, ast.List)):
            vals = list(val)
            if len(vals) != len(tg.elts):
                raise Untranslatable("unpacking length mismatch")
            for t, v in zip(tg.elts, vals):
                self.assign(t, v, fr)
        elif isinstance(tg, ast.Attribute):
            obj = self.eval(tg.value, fr)
            if isinstance(obj, SymObj):
                obj.attrs[tg.attr] = val
            elif isinstance(obj, dict) and False:
                pass
            else:
                raise Untranslatable(f"attribute assignment on {type(obj).__name__}")
        elif isinstance(tg, ast.Subscript):
            base = self.eval(tg.value, fr)
            idx = self.eval(tg.slice, fr)
            if isinstance(base, Sym) and isinstance(idx, MaskMarker):
                if isinstance(val, (int, float)) and val == 0:
                    self.assign(tg.value, self.emask(MASK["NKRON"], base), fr)
                    return
            if isinstance(base, (dict, list)) and not has_sym(idx):
                base[idx] = val
                return
            raise Untranslatable("subscript assignment")
        else:
            raise Untranslatable(f"assignment target {type(tg).__name__}")

    # ---------------------------------------------------------------- expressions
    def eval(self, e, fr):
        m = getattr(self, "ev_" + type(e).__name__, None)
        if m is None:
            raise Untranslatable(f"expression {type(e).__name__}")
        return m(e, fr)

    def ev_Constant(self, e, fr):
        return e.value

    def ev_Name(self, e, fr):
        if e.id in fr.locals:
            return fr.locals[e.id]
        if e.id in fr.globals:
            return fr.globals[e.id]
        import builtins
        if hasattr(builtins, e.id):
            return getattr(builtins, e.id)
        raise Untranslatable(f"unknown name {e.id}")

    def ev_Tuple(self, e, fr):
        return tuple(self.eval(x, fr) for x in e.elts)

    def ev_List(self, e, fr):
        return [self.eval(x, fr) for x in e.elts]

    def ev_Dict(self, e, fr):
        out = {}
        for k, v in zip(e.keys, e.values):
            if k is None:
                out.update(self.eval(v, fr))
            else:
                out[self.eval(k, fr)] = self.eval(v, fr)
        return out

    def ev_Slice(self, e, fr):
        return slice(*(None if x is None else self.eval(x, fr) for x in (e.lower, e.upper, e.step)))

    def ev_JoinedStr(self, e, fr):
        return UNKNOWN

    def ev_UnaryOp(self, e, fr):
        v = self.eval(e.operand, fr)
        if isinstance(v, Sym):
            if isinstance(e.op, ast.USub):
                return self.neg(v)
            if isinstance(e.op, ast.UAdd):
                return v
            raise Untranslatable("unary operator on an array")
        if isinstance(v, _Unknown):
            return UNKNOWN
        if isinstance(e.op, ast.Not):
            if has_sym(v) and not isinstance(v, (list, tuple, dict, SymObj)):
                raise Untranslatable("not of an untracked value")
            return not v
        if isinstance(e.op, ast.USub):
            return -v
        if isinstance(e.op, ast.UAdd):
            return +v
        raise Untranslatable("unary operator")

    def ev_BinOp(self, e, fr):
        return self.binop(e.op, self.eval(e.left, fr), self.eval(e.right, fr))

    def ev_BoolOp(self, e, fr):
        val = None
        for x in e.values:
            val = self.eval(x, fr)
            if isinstance(val, (_Unknown, Sym)):
                raise Untranslatable("boolean of an untracked value")
            if isinstance(e.op, ast.And) and not val:
                return val
            if isinstance(e.op, ast.Or) and val:
                return val
        return val

    def ev_Compare(self, e, fr):
        left = self.eval(e.left, fr)
        res = True
        for op, rt in zip(e.ops, e.comparators):
            right = self.eval(rt, fr)
            if isinstance(left, (_Unknown, Sym)) or isinstance(right, (_Unknown, Sym)):
                if isinstance(op, (ast.Is, ast.IsNot)):
                    r = (left is right) if isinstance(op, ast.Is) else (left is not right)
                else:
                    return UNKNOWN
            else:
                r = _CMPOPS[type(op)](left, right)
            res = res and r
            left = right
        return res

    def ev_IfExp(self, e, fr):
        c = self.eval(e.test, fr)
        if isinstance(c, (_Unknown, Sym)):
            raise Untranslatable("conditional on an untracked value")
        return self.eval(e.body if c else e.orelse, fr)

    def _comprehension(self, e, fr, elt_fn):
        out = []

        def rec(i):
            if i == len(e.generators):
                out.append(elt_fn())
                return
            g = e.generators[i]
            it = self.eval(g.iter, fr)
            if isinstance(it, (Sym, _Unknown)):
                raise Untranslatable("comprehension over an untracked iterable")
            for x in it:
                self.assign(g.target, x, fr)
                if all(self.eval(c, fr) for c in g.ifs):
                    rec(i + 1)
        rec(0)
        return out

    def ev_ListComp(self, e, fr):
        return self._comprehension(e, fr, lambda: self.eval(e.elt, fr))

    def ev_GeneratorExp(self, e, fr):
        return self._comprehension(e, fr, lambda: self.eval(e.elt, fr))

    def ev_Starred(self, e, fr):
        raise Untranslatable("starred expression")

    def ev_Subscript(self, e, fr):
        base = self.eval(e.value, fr)
        idx = self.eval(e.slice, fr)
        if isinstance(base, Sym):
            if isinstance(idx, MaskMarker):
                raise Untranslatable("boolean-mask read")
            items = idx if isinstance(idx, tuple) else (idx,)
            tag = TAG["AX"]
            if any(x is self.alpha_A for x in items):
                tag = TAG["ALPHA"]
            elif any(x is self.beta_A for x in items):
                tag = TAG["BETA"]
            return self.lin(tag, base)
        if isinstance(base, _Unknown):
            return UNKNOWN
        if isinstance(idx, slice) and has_sym((idx.start, idx.stop, idx.step)):
            return UNKNOWN
        if isinstance(idx, (_Unknown, Sym, Idx)) or has_sym(idx):
            if isinstance(base, str) or isinstance(base, (list, tuple)):
                return UNKNOWN
            raise Untranslatable("subscript with an untracked index")
        try:
            return base[idx]
        except Exception as ex:  # noqa
            raise Untranslatable(f"subscript failed: {ex}")

    def ev_Attribute(self, e, fr):
        obj = self.eval(e.value, fr)
        return self.getattr(obj, e.attr, fr)

    def getattr(self, obj, name, fr=None):
        if isinstance(obj, Sym):
            if name == "real":
                return self.re(obj)
            if name == "imag":
                return self.im(obj)
            if name in ("shape", "ndim", "dtype", "size"):
                return UNKNOWN
            if name == "T":
                return self.lin(TAG["AX"], obj)
            if name in _SYM_METHODS:
                return NativeMethod(lambda *a, **k: _SYM_METHODS[name](self, obj, *a, **k))
            raise Untranslatable(f"array attribute .{name}")
        if isinstance(obj, _Unknown):
            return UNKNOWN
        if isinstance(obj, SymObj):
            if name == "__dict__":
                return obj.attrs
            if name in obj.native:
                return obj.native[name]
            if name in obj.attrs:
                return obj.attrs[name]
            return self.class_attr(obj, obj.cls, name)
        if isinstance(obj, SuperProxy):
            mro = obj.obj.cls.__mro__
            start = mro.index(obj.after) + 1
            for c in mro[start:]:
                if name in c.__dict__:
                    return self.bind(obj.obj, c.__dict__[name], c)
            raise Untranslatable(f"super() has no {name}")
        if isinstance(obj, SymDataK):
            return obj.getattr(name)
        if isinstance(obj, dict) and name in ("update", "get", "items", "keys", "values", "copy", "pop", "setdefault"):
            return getattr(obj, name)
        if isinstance(obj, list) and name == "append":
            return obj.append
        try:
            return getattr(obj, name)
        except AttributeError:
            raise Untranslatable(f"{type(obj).__name__} has no attribute {name}")

    def class_attr(self, obj, cls, name):
        for c in cls.__mro__:
            if name in c.__dict__:
                return self.bind(obj, c.__dict__[name], c)
        raise Untranslatable(f"{cls.__name__} object has no attribute {name}")

    def bind(self, obj, member, owner):
        if isinstance(member, property):
            return self.call_function(member.fget, [], {}, self_obj=obj, owner=owner)
        if inspect.isfunction(member):
            return BoundMethod(obj, member, owner)
        if isinstance(member, (staticmethod, classmethod)):
            raise Untranslatable("static/class method")
        return member

    def ev_Call(self, e, fr):
        # super() with no arguments
        if isinstance(e.func, ast.Name) and e.func.id == "super" and not e.args:
            return SuperProxy(fr.self_obj, fr.owner)
        func = self.eval(e.func, fr)
        args, kwargs = [], {}
        for a in e.args:
            if isinstance(a, ast.Starred):
                args.extend(self.eval(a.value, fr))
            else:
                args.append(self.eval(a, fr))
        for k in e.keywords:
            if k.arg is None:
                kwargs.update(self.eval(k.value, fr))
            else:
                kwargs[k.arg] = self.eval(k.value, fr)
        return self.call(func, args, kwargs)

    def call(self, func, args, kwargs):
        if isinstance(func, BoundMethod):
            # nn / ln / nl / ll / trace / trace_ln are pure: memoise on (object, method, index arguments)
            if func.func.__name__ in ("nn", "ln", "nl", "ll", "trace", "trace_ln") and not kwargs and \
                    all(isinstance(a, (Idx, int)) for a in args):
                key = (id(func.obj), func.func, tuple(a.name if isinstance(a, Idx) else a for a in args))
                if key not in self.memo:
                    self.memo[key] = (func.obj, self.call_function(func.func, args, kwargs, self_obj=func.obj, owner=func.owner))
                return self.memo[key][1]
            return self.call_function(func.func, args, kwargs, self_obj=func.obj, owner=func.owner)
        if isinstance(func, NativeMethod):
            return func.fn(*args, **kwargs)
        if isinstance(func, _Unknown):
            return UNKNOWN
        if inspect.isclass(func):
            from wannierberri.formula import Formula
            if issubclass(func, Formula):
                return self.instantiate(func, args, kwargs)
        name = getattr(func, "__name__", None)
        mod = getattr(func, "__module__", "") or ""
        if name == "cached_einsum" or (name == "einsum" and mod.startswith("numpy")):
            return self.einsum(args)
        if func in _NP_FUNCS:
            return _NP_FUNCS[func](self, *args, **kwargs)
        if func is len:
            if isinstance(args[0], (Idx, Sym, _Unknown)):
                return UNKNOWN
            return len(args[0])
        if func is isinstance:
            if isinstance(args[0], SymObj):
                klass = args[1] if isinstance(args[1], tuple) else (args[1],)
                return any(issubclass(args[0].cls, k) for k in klass if inspect.isclass(k))
            return isinstance(*args)
        if func is type and len(args) == 1:
            return args[0].cls if isinstance(args[0], SymObj) else type(args[0])
        if func is hasattr:
            if isinstance(args[0], SymObj):
                try:
                    self.getattr(args[0], args[1])
                    return True
                except Untranslatable:
                    return False
            return hasattr(*args)
        if func is getattr:
            try:
                return self.getattr(args[0], args[1])
            except Untranslatable:
                if len(args) == 3:
                    return args[2]
                raise
        if func in (zip, enumerate, list, tuple, range, reversed, dict, set, print, sorted, any, all, sum, max, min, abs, int,
                    float, complex, bool, str):
            if func is print:
                return None
            if func in (sum, max, min, abs, int, float, complex) and has_sym(args):
                if any(isinstance(x, Sym) for x in (args[0] if isinstance(args[0], (list, tuple)) else args)):
                    raise Untranslatable(f"{func.__name__} of arrays")
                return UNKNOWN
            return func(*args, **kwargs)
        if not has_sym(args) and not has_sym(kwargs):
            try:
                return func(*args, **kwargs)
            except Exception as ex:  # noqa
                raise Untranslatable(f"concrete call {name} failed: {type(ex).__name__}: {str(ex)[:80]}")
        # bound method of a dict / list with symbolic content
        selfobj = getattr(func, "__self__", None)
        if isinstance(selfobj, (dict, list)):
            return func(*args, **kwargs)
        if inspect.isfunction(func) and mod.startswith("wannierberri"):
            return self.call_function(func, args, kwargs)
        raise Untranslatable(f"call of {name or type(func).__name__} with symbolic arguments")

    def einsum(self, args):
        ops = []
        for a in args[1:]:
            if isinstance(a, Sym):
                ops.append(a)
            elif isinstance(a, np.ndarray) and not np.iscomplexobj(a):
                continue                                  # real constant tensor (delta_f, Levi-Civita)
            elif isinstance(a, (int, float)):
                ops.append(self.number(a))
            else:
                raise Untranslatable(f"einsum operand {type(a).__name__}")
        if not ops:
            raise Untranslatable("einsum without array operands")
        sub = args[0] if isinstance(args[0], str) else ""
        if len(ops) == 1:
            tag = TAG["AX"]
            lhs = sub.split("->")[0]
            if isinstance(sub, str) and len(lhs) >= 2 and lhs[0] == lhs[1]:
                tag = TAG["TRACE"]
            if len(args) > 2:
                tag = TAG["DELTA"]
            return self.lin(tag, ops[0])
        res = ops[-1]
        for a in reversed(ops[:-1]):
            res = self.mul(a, res)
        if len(ops) != len(args) - 1:
            res = self.lin(TAG["DELTA"], res)
        return res

    def instantiate(self, cls, args, kwargs):
        obj = SymObj(cls)
        for c in cls.__mro__:
            if "__init__" in c.__dict__:
                self.call_function(c.__dict__["__init__"], args, kwargs, self_obj=obj, owner=c)
                break
        return obj


_PYOPS = {ast.Add: lambda a, b: a + b, ast.Sub: lambda a, b: a - b, ast.Mult: lambda a, b: a * b,
          ast.Div: lambda a, b: a / b, ast.FloorDiv: lambda a, b: a // b, ast.Mod: lambda a, b: a % b,
          ast.Pow: lambda a, b: a ** b, ast.MatMult: lambda a, b: a @ b}
_CMPOPS = {ast.Eq: lambda a, b: a == b, ast.NotEq: lambda a, b: a != b, ast.Lt: lambda a, b: a < b,
           ast.LtE: lambda a, b: a <= b, ast.Gt: lambda a, b: a > b, ast.GtE: lambda a, b: a >= b,
           ast.Is: lambda a, b: a is b, ast.IsNot: lambda a, b: a is not b, ast.In: lambda a, b: a in b,
           ast.NotIn: lambda a, b: a not in b}


def _m_lin(tag):
    return lambda tr, x, *a, **k: tr.lin(TAG[tag], x)


_SYM_METHODS = {
    "conj": lambda tr, x, *a, **k: tr.conjE(x),
    "conjugate": lambda tr, x, *a, **k: tr.conjE(x),
    "swapaxes": _m_lin("AX"), "transpose": _m_lin("AX"), "reshape": _m_lin("AX"), "copy": _m_lin("AX"),
    "sum": _m_lin("PAIRSUM"), "astype": _m_lin("AX"),
    "max": lambda tr, x, *a, **k: UNKNOWN, "min": lambda tr, x, *a, **k: UNKNOWN,
}


def _np_zeros(tr, *a, **k):
    return tr.zero()


def _np_array(tr, x, *a, **k):
    if isinstance(x, Sym):
        return tr.lin(TAG["AX"], x)
    if has_sym(x):
        raise Untranslatable("np.array of symbolic content")
    return np.array(x, *a, **k)


def _np_abs(tr, x, *a, **k):
    if isinstance(x, Sym):
        if x.efun:
            return tr.efun()
        raise Untranslatable("abs of an array")
    return np.abs(x)


def _np_unary(fn_sym, fn_np):
    def f(tr, x, *a, **k):
        if isinstance(x, Sym):
            return fn_sym(tr, x)
        return fn_np(x, *a, **k)
    return f


_NP_FUNCS = {
    np.zeros: _np_zeros, np.zeros_like: _np_zeros,
    np.eye: lambda tr, *a, **k: tr.const(1),
    np.array: _np_array, np.asarray: _np_array,
    np.real: _np_unary(lambda tr, x: tr.re(x), np.real), np.imag: _np_unary(lambda tr, x: tr.im(x), np.imag),
    np.conj: _np_unary(lambda tr, x: tr.conjE(x), np.conj), np.conjugate: _np_unary(lambda tr, x: tr.conjE(x), np.conj),
    np.abs: _np_abs, np.absolute: _np_abs,
    np.diagonal: lambda tr, x, *a, **k: tr.lin(TAG["DIAG"], x) if isinstance(x, Sym) else np.diagonal(x, *a, **k),
    np.swapaxes: lambda tr, x, *a, **k: tr.lin(TAG["AX"], x) if isinstance(x, Sym) else np.swapaxes(x, *a, **k),
    np.transpose: lambda tr, x, *a, **k: tr.lin(TAG["AX"], x) if isinstance(x, Sym) else np.transpose(x, *a, **k),
}


class SymDataK:
    """symbolic Data_K: natives for the k-space matrices, live source for the derived quantities"""

    LIVE = ("D_H", "Dcov", "get_A_H", "get_E1", "get_O1", "get_M1", "get_E2", "get_Bln")

    def __init__(self, tr):
        self.tr = tr
        self.cache = {}
        from wannierberri.data_K.data_K import Data_K
        self.cls = Data_K

    def getattr(self, name):
        tr = self.tr
        if name in ("nk", "num_wann", "nbands", "cell_volume", "NKFFT", "kpoints_all"):
            return UNKNOWN
        if name == "force_internal_terms_only":
            return False
        if name == "is_phonon":
            return False
        if name == "E_K":
            return tr.sym("E", efun=True)
        if name == "dEig_inv":
            return tr.sym("emask", MASK["DEINV"], tr.const(1).n, efun=True)
        if name == "delE_K":
            return tr.re(tr.lin(TAG["DIAG"], tr.bar("Ham", 1)))
        if name == "Xbar":
            return NativeMethod(lambda name, der=0: tr.bar(name, der))
        if name == "covariant":
            return NativeMethod(self.covariant)
        if name == "V_covariant":
            return self.V_covariant()
        if name == "sdct_is_degen":
            return NativeMethod(lambda *a, **k: MaskMarker())
        if name == "sdct_kron":
            return NativeMethod(lambda *a, **k: tr.sym("emask", MASK["KRON"], tr.const(1).n, efun=True))
        if name == "get_R_mat":
            return NativeMethod(lambda key: RMatMarker(key))
        if name == "_R_to_k_H":
            def r2k(X, der=0, hermitian=True):
                if not isinstance(X, RMatMarker):
                    raise Untranslatable("_R_to_k_H of a non-stored matrix")
                return tr.bar(X.name, der)
            return NativeMethod(r2k)
        if name in self.LIVE:
            member = inspect.getattr_static(self.cls, name)
            fn = getattr(member, "func", None) or getattr(member, "fget", None)
            if fn is not None:                              # cached_property / property
                if name not in self.cache:
                    self.cache[name] = tr.call_function(fn, [], {}, self_obj=self, owner=self.cls)
                return self.cache[name]
            fn = getattr(member, "__wrapped__", member)     # lru_cache
            return NativeMethod(lambda *a, **k: self._cached_call(name, fn, a, k))
        raise Untranslatable(f"Data_K.{name} is outside the translated fragment")

    def _cached_call(self, name, fn, a, k):
        key = (name, repr(a), repr(sorted(k.items())))
        if key not in self.cache:
            self.cache[key] = self.tr.call_function(fn, list(a), dict(k), self_obj=self, owner=self.cls)
        return self.cache[key]

    def V_covariant(self):
        from wannierberri.formula import Matrix_ln
        from wannierberri.symmetry.point_symmetry import transform_odd
        obj = self.tr.instantiate(Matrix_ln, [self.tr.bar("Ham", 1)], dict(transformTR=transform_odd, transformInv=transform_odd))
        obj.native["ln"] = NativeMethod(lambda *a, **k: self.tr.zero())
        return obj

    def covariant(self, name, commader=0, gender=0, save=True):
        from wannierberri.formula import Matrix_ln, Matrix_GenDer_ln
        from wannierberri.data_K.data_K import get_transform_TR, get_transform_Inv
        key = ("cov", name, commader, gender)
        if key in self.cache:
            return self.cache[key]
        tr = self.tr
        if commader * gender != 0:
            raise Untranslatable("mixed derivatives")
        if gender == 0:
            res = tr.instantiate(Matrix_ln, [tr.bar(name, commader)],
                                 dict(transformTR=get_transform_TR(name, commader), transformInv=get_transform_Inv(name, commader)))
        elif gender == 1:
            if name == "Ham":
                res = self.V_covariant()
            else:
                res = tr.instantiate(Matrix_GenDer_ln, [self.covariant(name), self.covariant(name, commader=1), self.getattr("Dcov")],
                                     dict(transformTR=get_transform_TR(name, gender), transformInv=get_transform_Inv(name, gender)))
        else:
            raise Untranslatable("gender > 1")
        self.cache[key] = res
        return res


# ---------------------------------------------------------------------------------------------
# driver

def translate_spec(tr, sp):
    """PExpr node of the observable of one Spec (class + kwargs) or raises Untranslatable"""
    ik, inn, out = 0, Idx("inn"), Idx("out")
    if sp.kind == "cov":
        obj = tr.datak.covariant(sp.var["name"], **sp.kwargs)
        res = tr.call(tr.getattr(obj, "trace"), [ik, inn, out], {})
    else:
        obj = tr.instantiate(sp.cls, [tr.datak], dict(sp.kwargs))
        if sp.kind == "ln":
            res = tr.call(tr.getattr(obj, "trace"), [ik, inn, out], {})
        else:
            res = tr.call(tr.getattr(obj, "trace_ln"), [ik, Idx("inn1"), Idx("inn2")], {})
    if isinstance(res, (int, float)) or isinstance(res, _Unknown):
        # Formula_dyn_ident.trace_ln = len(inn1) * len(inn2): a positive integer
        return tr.const(1).n
    if not isinstance(res, Sym):
        raise Untranslatable(f"observable is {type(res).__name__}")
    return res.n


def render(pool, roots, min_def_size=24):
    """Lean text: shared sub-terms become `def`s (named tN), returns (definitions text, {root id: lean expression})"""
    nodes = pool.nodes
    size, refs = {}, {}
    order = []
    seen = set()
    stack = [(r, False) for r in roots]
    while stack:
        n, done = stack.pop()
        if done:
            order.append(n)
            continue
        if n in seen:
            continue
        seen.add(n)
        stack.append((n, True))
        for c in children(nodes[n]):
            refs[c] = refs.get(c, 0) + 1
            if c not in seen:
                stack.append((c, False))
    for r in roots:
        refs[r] = refs.get(r, 0) + 1
    for n in order:
        size[n] = 1 + sum(size[c] for c in children(nodes[n]))
    named, text, inline_size = {}, {}, {}
    defs = []
    for n in order:
        nd = nodes[n]
        ch = [named[c] if c in named else ("(" + text[c] + ")" if " " in text[c] else text[c]) for c in children(nd)]
        isz = 1 + sum(1 if c in named else inline_size[c] for c in children(nd))
        t = node_text(nd, ch)
        text[n], inline_size[n] = t, isz
        if (refs.get(n, 0) >= 2 and isz >= 4) or isz >= min_def_size:
            nm = f"t{n}"
            defs.append(f"def {nm} : PExpr := {t}")
            named[n] = nm
            inline_size[n] = 1
    return "\n".join(defs), {r: (named.get(r) or text[r]) for r in roots}, len(order), len(defs)


def children(nd):
    k = nd[0]
    if k in ("add", "mul", "hmul"):
        return (nd[1], nd[2])
    if k in ("neg", "dagger", "conjE", "deriv", "re", "im"):
        return (nd[1],)
    if k in ("lin", "emask"):
        return (nd[2],)
    return ()


TAGNAME = {v: k for k, v in TAG.items()}
MASKNAME = {v: k for k, v in MASK.items()}


def node_text(nd, ch):
    k = nd[0]
    if k == "zero":
        return "PExpr.zero"
    if k == "I":
        return "PExpr.I"
    if k == "E":
        return "PExpr.E"
    if k == "const":
        p, q = nd[1], nd[2]
        return f"cq {p} {q}" if p >= 0 else f"cq ({p}) {q}"
    if k == "bar":
        return f"bar .{nd[1]} {nd[2]}"
    if k in ("add", "mul", "hmul"):
        return f"PExpr.{k} {ch[0]} {ch[1]}"
    if k in ("neg", "dagger", "conjE", "deriv", "re", "im"):
        return f"PExpr.{k} {ch[0]}"
    if k == "lin":
        return f"PExpr.lin {TAGNAME[nd[1]]} {ch[0]}"
    if k == "emask":
        return f"PExpr.emask {MASKNAME[nd[1]]} {ch[0]}"
    raise ValueError(k)
