"""A small AST-based translator: regenerates Lean definitions from the LIVE source of two pure pieces of
wannierberri/run_grid.py, so that the kernel re-checks the theorems against what the code says NOW:

  * read_factors  (the choose-iteration arithmetic of the `iter < 0` branch)      -> `chooseIterGen`   (C11)
  * process()     (the body of the `while True:` ray.wait collection loop)         -> `stepGen`         (C12)

Only a restricted Python fragment is understood (exactly the constructs these two pieces use: integer arithmetic and
comparisons, `min`, `len`, negative indexing `a[-1]`, boolean-mask indexing `a[a <= x]`, `x in a`, np.sort / np.array /
a list comprehension over the directory listing, element-wise `&`, `|`, `~` on boolean vectors, `np.where(v)[0]`,
a for-loop that adds results, `if ...: break`).  Anything else raises `OutsideFragment`; the caller then falls back
to the hand-written model and records an evidence note.
"""
import ast
import os


class OutsideFragment(Exception):
    pass


def _src(repo, rel):
    with open(os.path.join(repo, rel)) as f:
        return f.read()


def _find_function(tree, name):
    for node in tree.body:
        if isinstance(node, ast.FunctionDef) and node.name == name:
            return node
    raise OutsideFragment(f"function {name} not found")


def _name(node):
    return node.id if isinstance(node, ast.Name) else None


def _is_call(node, dotted):
    """node is a call of `a.b` / `a` given as 'a.b' or 'a'"""
    if not isinstance(node, ast.Call):
        return False
    f = node.func
    parts = dotted.split(".")
    if len(parts) == 1:
        return isinstance(f, ast.Name) and f.id == parts[0]
    return isinstance(f, ast.Attribute) and f.attr == parts[1] and isinstance(f.value, ast.Name) and f.value.id == parts[0]


# ====================================================================================================
# read_factors

class _RF:
    """symbolic translation of the `else` branch of read_factors"""

    def __init__(self, iter_arg):
        self.iter_arg = iter_arg
        self.listing_files = None     # python name bound to glob.glob(...)
        self.natlists = {}            # python name -> lean expr : List Nat
        self.sorted_used = False

    def natlist(self, node):
        if _name(node) in self.natlists:
            return self.natlists[_name(node)]
        if _is_call(node, "np.sort") and len(node.args) == 1:
            self.sorted_used = True
            return f"(sortNat {self.natlist(node.args[0])})"
        if _is_call(node, "np.array") and len(node.args) == 1:
            return self.natlist(node.args[0])
        if _is_call(node, "sorted") and len(node.args) == 1:
            self.sorted_used = True
            return f"(sortNat {self.natlist(node.args[0])})"
        if isinstance(node, ast.ListComp) and len(node.generators) == 1 and _is_call(node.elt, "int") and \
                _name(node.generators[0].iter) == self.listing_files and not node.generators[0].ifs:
            return "lst"        # the iteration numbers parsed from the file names, in listing order
        raise OutsideFragment("list expression " + ast.dump(node)[:80])

    def intexpr(self, node, env, binders):
        """Lean expression of type Int; `binders` collects (lean list expr, fresh var) for every `a[-1]`"""
        if isinstance(node, ast.Constant) and isinstance(node.value, int):
            return f"({node.value} : Int)"
        if _name(node) == self.iter_arg:
            return "iter"
        if _name(node) in env:
            return env[_name(node)]
        if isinstance(node, ast.BinOp) and isinstance(node.op, (ast.Add, ast.Sub)):
            op = "+" if isinstance(node.op, ast.Add) else "-"
            return f"{self.intexpr(node.left, env, binders)} {op} {self.intexpr(node.right, env, binders)}"
        if isinstance(node, ast.Subscript) and self._is_minus_one(node.slice):
            lst = self.natlist(node.value)
            v = f"v{len(binders) + 1}"
            binders.append((lst, v))
            return f"({v} : Int)"
        raise OutsideFragment("integer expression " + ast.dump(node)[:80])

    @staticmethod
    def _is_minus_one(s):
        return isinstance(s, ast.UnaryOp) and isinstance(s.op, ast.USub) and isinstance(s.operand, ast.Constant) and s.operand.value == 1

    def result_of(self, stmts, env, var):
        """Lean expression of type `Option Nat`: the value of python variable `var` (an Int held in env) after the
        statements, as `some (..).toNat`, threading partial operations (`[-1]` of an empty array -> none)"""
        if not stmts:
            return f"some ({env[var]}).toNat"
        st, rest = stmts[0], stmts[1:]
        if isinstance(st, ast.Expr):        # Warning(...) / print(...)
            return self.result_of(rest, env, var)
        if isinstance(st, ast.Assign) and len(st.targets) == 1 and _name(st.targets[0]) == var:
            # boolean-mask form  a[a <= x][-1]
            v = st.value
            if isinstance(v, ast.Subscript) and self._is_minus_one(v.slice) and isinstance(v.value, ast.Subscript) and \
                    isinstance(v.value.slice, ast.Compare) and len(v.value.slice.ops) == 1 and \
                    isinstance(v.value.slice.ops[0], ast.LtE):
                lst = self.natlist(v.value.value)
                if self.natlist(v.value.slice.left) != lst:
                    raise OutsideFragment("mask over another array")
                bound = self.intexpr(v.value.slice.comparators[0], env, [])
                if rest:
                    raise OutsideFragment("statements after the masked assignment")
                return f"({lst}.filter (fun i => decide (i ≤ ({bound}).toNat))).getLast?"
            binders = []
            e = self.intexpr(v, env, binders)
            env2 = dict(env)
            env2[var] = var
            body = f"let {var} : Int := {e}\n{self.result_of(rest, env2, var)}"
            for lst, b in reversed(binders):
                body = f"match {lst}.getLast? with\n| none => none\n| some {b} =>\n{_indent(body)}"
            return body
        if isinstance(st, ast.If) and isinstance(st.test, ast.Compare) and len(st.test.ops) == 1:
            op = st.test.ops[0]
            if isinstance(op, (ast.Lt, ast.LtE, ast.Gt, ast.GtE)):
                sym = {ast.Lt: "<", ast.LtE: "≤", ast.Gt: ">", ast.GtE: "≥"}[type(op)]
                cond = f"{self.intexpr(st.test.left, env, [])} {sym} {self.intexpr(st.test.comparators[0], env, [])}"
                a = self.result_of(st.body + rest, env, var)
                b = self.result_of(st.orelse + rest, env, var)
                return f"if {cond} then (\n{_indent(a)})\nelse (\n{_indent(b)})"
            if isinstance(op, (ast.In, ast.NotIn)):
                lst = self.natlist(st.test.comparators[0])
                x = self.intexpr(st.test.left, env, [])
                a = self.result_of(st.body + rest, env, var)
                b = self.result_of(st.orelse + rest, env, var)
                if isinstance(op, ast.NotIn):
                    a, b = b, a
                return f"if {lst}.contains ({x}).toNat then (\n{_indent(a)})\nelse (\n{_indent(b)})"
        raise OutsideFragment("statement " + ast.dump(st)[:80])


def _indent(s, n=2):
    return "\n".join(" " * n + l for l in s.split("\n"))


def translate_read_factors(repo):
    """returns the Lean text of `def chooseIterGen (lst : List Nat) (iter : Int) : Option Nat` and a description"""
    tree = ast.parse(_src(repo, "wannierberri/run_grid.py"))
    fn = _find_function(tree, "read_factors")
    if len(fn.args.args) != 2:
        raise OutsideFragment("read_factors signature")
    iter_arg = fn.args.args[1].arg
    if len(fn.body) != 1 or not isinstance(fn.body[0], ast.If):
        raise OutsideFragment("read_factors body is not a single if/else")
    top = fn.body[0]
    t = top.test
    if not (isinstance(t, ast.Compare) and _name(t.left) == iter_arg and len(t.ops) == 1 and isinstance(t.ops[0], ast.GtE)
            and isinstance(t.comparators[0], ast.Constant) and t.comparators[0].value == 0):
        raise OutsideFragment("first test is not `iter >= 0`")
    # the `iter >= 0` branch must load exactly that iteration: `return iter, factors`
    ret = top.body[-1]
    if not (isinstance(ret, ast.Return) and isinstance(ret.value, ast.Tuple) and _name(ret.value.elts[0]) == iter_arg):
        raise OutsideFragment("`iter >= 0` branch does not return (iter, factors)")
    rf = _RF(iter_arg)
    stmts = list(top.orelse)
    # files = glob.glob(...)
    st = stmts.pop(0)
    if not (isinstance(st, ast.Assign) and _is_call(st.value, "glob.glob")):
        raise OutsideFragment("listing is not obtained with glob.glob")
    rf.listing_files = _name(st.targets[0])
    # iter_indices = <natlist>
    st = stmts.pop(0)
    if not isinstance(st, ast.Assign):
        raise OutsideFragment("expected the assignment of the iteration numbers")
    arr = _name(st.targets[0])
    arr_expr = rf.natlist(st.value)
    rf.natlists[arr] = arr
    # ... return read_factors(path, <var>)
    ret = stmts.pop()
    if not (isinstance(ret, ast.Return) and _is_call(ret.value, "read_factors") and len(ret.value.args) == 2):
        raise OutsideFragment("branch does not end with `return read_factors(path, index)`")
    var = _name(ret.value.args[1])
    body = rf.result_of(stmts, {}, var)
    text = ("def chooseIterGen (lst : List Nat) (iter : Int) : Option Nat :=\n"
            "  if 0 ≤ iter then some iter.toNat else\n"
            f"    let {arr} := {arr_expr}\n" + _indent(body, 4) + "\n")
    return text, dict(sorted=rf.sorted_used, array=arr_expr)


# ====================================================================================================
# process(): body of the ray.wait loop

STATE_VARS = {"num_remotes_calculated": ("nat", "s.ncalc"), "num_remotes": ("nat", "s.n"), "nstep_print": ("nat", "s.nstep"),
              "remotes_calculated_old": ("bvec", "s.old")}


class _Loop:
    def __init__(self):
        self.env = dict(STATE_VARS)
        self.asked = None
        self.added_filter = None
        self.break_cond = None
        self.after_break = False
        self.updates_after_break = {}

    def nat(self, node):
        if isinstance(node, ast.Constant) and isinstance(node.value, int) and node.value >= 0:
            return str(node.value)
        n = _name(node)
        if n in self.env and self.env[n][0] == "nat":
            return self.env[n][1]
        if isinstance(node, ast.BinOp) and isinstance(node.op, ast.Add):
            return f"{self.nat(node.left)} + {self.nat(node.right)}"
        if _is_call(node, "min") and len(node.args) == 2:
            return f"min ({self.nat(node.args[0])}) {self._atom(self.nat(node.args[1]))}"
        if _is_call(node, "len") and len(node.args) == 1 and self.env.get(_name(node.args[0]), ("",))[0] == "reflist":
            return f"{self.env[_name(node.args[0])][1]}.length"
        raise OutsideFragment("natural-number expression " + ast.dump(node)[:80])

    @staticmethod
    def _atom(e):
        return e if all(c.isalnum() or c in "._" for c in e) else f"({e})"

    def bvec(self, node, i="i"):
        """Lean Bool expression in the index variable i"""
        n = _name(node)
        if n in self.env and self.env[n][0] == "bvec":
            return self.env[n][1].replace("#i", i) if "#i" in self.env[n][1] else f"{self.env[n][1]} {i}"
        if isinstance(node, ast.BinOp) and isinstance(node.op, ast.BitAnd):
            return f"({self.bvec(node.left, i)} && {self.bvec(node.right, i)})"
        if isinstance(node, ast.BinOp) and isinstance(node.op, ast.BitOr):
            return f"({self.bvec(node.left, i)} || {self.bvec(node.right, i)})"
        if isinstance(node, ast.UnaryOp) and isinstance(node.op, ast.Invert):
            return f"!{self.bvec(node.operand, i)}"
        if _is_call(node, "np.array") and len(node.args) == 1 and isinstance(node.args[0], ast.ListComp):
            lc = node.args[0]
            g = lc.generators[0]
            if len(lc.generators) == 1 and _name(g.iter) == "remotes" and isinstance(lc.elt, ast.Compare) and \
                    len(lc.elt.ops) == 1 and isinstance(lc.elt.ops[0], ast.In) and _name(lc.elt.left) == _name(g.target) \
                    and self.env.get(_name(lc.elt.comparators[0]), ("",))[0] == "reflist":
                return f"{self.env[_name(lc.elt.comparators[0])][1]}.contains {i}"
        raise OutsideFragment("boolean-vector expression " + ast.dump(node)[:80])

    def stmt(self, st):
        # ready, _ = ray.wait(remotes, num_returns=..., timeout=...)
        if isinstance(st, ast.Assign) and isinstance(st.targets[0], ast.Tuple) and _is_call(st.value, "ray.wait"):
            if _name(st.value.args[0]) != "remotes":
                raise OutsideFragment("ray.wait is not called on `remotes`")
            kw = {k.arg: k.value for k in st.value.keywords}
            if "num_returns" not in kw:
                raise OutsideFragment("ray.wait without num_returns")
            self.asked = self.nat(kw["num_returns"])
            self.env[_name(st.targets[0].elts[0])] = ("reflist", "ready")
            return
        if isinstance(st, ast.Assign) and len(st.targets) == 1 and _name(st.targets[0]):
            tgt = _name(st.targets[0])
            if _is_call(st.value, "print_progress"):
                return
            try:
                val = ("nat", self.nat(st.value))
            except OutsideFragment:
                val = ("bvec", "(" + self.bvec(st.value, "#i") + ")")
            if self.after_break:
                self.updates_after_break[tgt] = val
            else:
                self.env[tgt] = val
            return
        if isinstance(st, ast.For):
            it = st.iter
            if not (isinstance(it, ast.Subscript) and _is_call(it.value, "np.where") and isinstance(it.slice, ast.Constant)
                    and it.slice.value == 0):
                raise OutsideFragment("for loop is not over np.where(..)[0]")
            ir = _name(st.target)
            ok_add = any(isinstance(b, ast.AugAssign) and _name(b.target) == "result_sum" and isinstance(b.op, ast.Add)
                         and _is_call(b.value, "set_result") for b in st.body)
            ok_idx = all(isinstance(b, ast.AugAssign) or (
                isinstance(b, ast.Assign) and (
                    (_is_call(b.value, "ray.get") and isinstance(b.value.args[0], ast.Subscript) and _name(b.value.args[0].slice) == ir)
                    or (isinstance(b.value, ast.Subscript) and _name(b.value.value) == "dK_list" and _name(b.value.slice) == ir)))
                for b in st.body)
            if not (ok_add and ok_idx) or self.added_filter is not None:
                raise OutsideFragment("body of the collection for-loop")
            self.added_filter = self.bvec(it.value.args[0], "i")
            return
        if isinstance(st, ast.If) and len(st.body) == 1 and isinstance(st.body[0], ast.Break) and not st.orelse and \
                isinstance(st.test, ast.Compare) and len(st.test.ops) == 1 and isinstance(st.test.ops[0], ast.GtE):
            self.break_cond = f"{self.nat(st.test.comparators[0])} ≤ {self.nat(st.test.left)}"
            self.after_break = True
            return
        if isinstance(st, ast.Expr):
            return
        raise OutsideFragment("loop statement " + ast.dump(st)[:80])


def translate_wait_loop(repo):
    """returns the Lean text of `def stepGen (s : State) (ready : List Nat) : State` for the parallel branch of process()"""
    tree = ast.parse(_src(repo, "wannierberri/run_grid.py"))
    fn = _find_function(tree, "process")
    loops = [n for n in ast.walk(fn) if isinstance(n, ast.While)]
    if len(loops) != 1 or not (isinstance(loops[0].test, ast.Constant) and loops[0].test.value is True):
        raise OutsideFragment("process() does not contain exactly one `while True:` loop")
    L = _Loop()
    for st in loops[0].body:
        L.stmt(st)
    if None in (L.asked, L.added_filter, L.break_cond):
        raise OutsideFragment("ray.wait / collection loop / break not found")
    ncalc = L.env["num_remotes_calculated"][1]
    def fld(name, default):
        v = L.updates_after_break.get(name)
        return v[1] if v else default
    old_new = fld("remotes_calculated_old", None)
    if old_new is None:
        raise OutsideFragment("remotes_calculated_old is not updated after the break test")
    other = [k for k in L.updates_after_break if k not in ("remotes_calculated_old", "t_print_prev")]
    if other:
        raise OutsideFragment(f"unexpected state updates after the break test: {other}")
    old_fun = "fun i => " + old_new.replace("#i", "i")
    # the loop reads `len(ready)` AFTER the wait, but `num_returns` BEFORE: asked uses the entry state
    text = ("def stepGen (s : State) (ready : List Nat) : State :=\n"
            "  if s.done then s else\n"
            f"    let added := s.added ++ (List.range s.n).filter (fun i => {L.added_filter})\n"
            f"    let asked := s.asked ++ [{L.asked}]\n"
            f"    if {L.break_cond.replace(ncalc, 'ready.length') if ncalc in L.break_cond else L.break_cond} then\n"
            f"      {{ s with added := added, asked := asked, ncalc := {ncalc}, done := true }}\n"
            "    else\n"
            f"      {{ s with added := added, asked := asked, ncalc := {ncalc}, old := {old_fun} }}\n")
    return text, dict(old_update=old_fun)


# ====================================================================================================
# compile a regenerated definition together with the theorems that have to hold for it

def check_generated(ctx, fname, header, definition, theorems):
    """theorems: list of (name, lean text).  Returns {name: True/False} (compiled without error) and the raw output"""
    import re
    text = header + "\n" + definition + "\n"
    spans = []
    for name, th in theorems:
        start = text.count("\n") + 1
        text += th + "\n"
        spans.append((name, start, text.count("\n")))
    text += "\nend Gen\n"
    ok, out = ctx.lean_file(fname, text)
    bad_lines = [int(m.group(1)) for m in re.finditer(re.escape(fname) + r":(\d+):\d+: error", out)]
    if not ok and not bad_lines and "error" in out:
        return None, out           # the file as a whole did not compile (e.g. the definition itself)
    res = {}
    for name, a, b in spans:
        res[name] = not any(a <= l <= b for l in bad_lines)
    if any(l < spans[0][1] for l in bad_lines):
        return None, out
    return res, out


def record(ctx, name, ok, error=None):
    """book a regenerated obligation in the proof record of this run"""
    pr = ctx.proof
    pr["obligations"] += 1
    pr.setdefault("regenerated", {})[name] = bool(ok)
    if ok:
        pr["discharged"] += 1
    else:
        pr["errors"].append(error or f"regenerated obligation {name} does not check")
        pr["ok"] = False
