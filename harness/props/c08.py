"""C08 - declared time-reversal / inversion parities match the formulas."""
import ast
import hashlib
import inspect
import os
import textwrap

import numpy as np

from ..common import quiet, VERIF

PID = "C08"
CLAIM = dict(
    design="3/C08",
    technique="Lean 4 proof of a graded expression calculus (grade_sound for TR and inversion, soundness of the "
              "Transform validation, covariant parity rule) + declared-transform tables REGENERATED from the live "
              "formula / calculator classes and re-checked by `decide +kernel` on every run + grade-vs-measured-parity "
              "correspondence + property oracle on the real code in TR- and inversion-symmetric random models",
    text="Theorems: in every ring with commuting involutive automorphisms conj, rev (k -> -k) and a derivation-like D "
         "with D(rev x) = -rev(D x), every expression built from atoms with rev a = +-conj a (TR) / rev a = +-a (inversion) "
         "by sum, product, elementwise product, Hermitian transpose, conjugation, derivative, real/imaginary part, index "
         "operations and energy masks satisfies rev[e] = (-1)^grade conj[e] resp. (-1)^grade [e]; a declared "
         "Transform(factor, conj, transpose_axes) accepted by the decision procedure checkRow equals k -> -k on the "
         "observable; Xbar(name, der) has parity base(name)+der for every name and order.  Every run extracts the declared "
         "transformTR/transformInv of every formula class reachable from the static, tabulating, dynamic and SDCT "
         "calculators (internal/external/kwargs variants, calculator-level overrides, the (name,der) map of "
         "get_transform_TR/Inv), TRANSLATES the live source of every such class (ast of __init__/nn/ln/trace/trace_ln and "
         "of the Data_K helpers, executed symbolically) into a structure term, and has the kernel prove that each "
         "translated term has the grade and realness of the hand-written term of the class and that the declared "
         "transforms are what the calculus predicts for the translated term (checkAll).  _partial: the translator's map "
         "numpy -> PExpr (einsum = multilinear product, slicing/transposes = index operations, functions of the band "
         "energies = real even masks, Data_K.Xbar/covariant natives) is trusted, and checked numerically by the "
         "grade-vs-measured-parity correspondence and the oracle.",
    note="Trusted: Lean kernel + Mathlib; the harness and its symmetric-model generators; gauge covariance of traces "
         "(C04) to pick U(-k) = conj U(k); numpy/FFT kernels.  Known findings (guarded narrowly): SDCT surf_II asym "
         "antisymmetrises the wrong axes; get_transform_TR for FF/GG/rotAAab/CCab_antisym and tildeHab/tildeHab_d declare "
         "the wrong TR parity (latent: no calculator consumes them).",
)
TRUSTED = [
    "structure terms: one hand-written PExpr per class (WB/Model/C08.lean) AND, on every run, one term per class x variant "
    "TRANSLATED from the live source by harness/props/_c08_translate.py (symbolic execution of the ast of __init__, nn, ln, "
    "nl, ll, trace, trace_ln, symsumm of formula/formula.py, covariant.py, basic.py, elementary.py, sdct.py, the Formula "
    "classes of calculators/dynamic.py and of Data_K.D_H, Dcov, get_A_H, get_E1, get_O1, get_M1, get_E2, get_Bln); the kernel "
    "checks grade(translated) = grade(hand) and the declared transforms on the translated term; classes outside the "
    "fragment fall back to the hand term and are listed in the notes",
    "the translator trusts this map (harness/props/_c08_translate.py docstring): cached_einsum(sub, a, b, ..) -> mul a (mul b ..) "
    "with the subscript string NOT interpreted (any einsum is a real-multilinear map; one operand -> lin; real constant "
    "tensors such as delta_f dropped); array*array -> hmul; number*array -> mul (const q); 1j -> I; x/number -> mul (const 1/q); "
    "+,- -> add, neg; .real/np.real -> re; .imag/np.imag -> im; .conj()/np.conj -> conjE; indexing, swapaxes, transpose, "
    "sum(axis), reshape, diagonal, copy, np.array -> lin (grade-neutral; alpha_A/beta_A slices tagged); np.zeros -> zero; "
    "np.eye -> const 1; E_K, dEig_inv, sdct_kron and every arithmetic expression of them -> emask(.. const 1) (real, even); "
    "X[sdct_is_degen()] = 0 -> emask NKRON X; B[..,alpha_A,beta_A] += m -> B + lin EPS m; _spin_velocity_einsum_opt(C,A,B) -> "
    "C + A.B; if / for over flags, signs and literal tuples are executed concretely for the kwargs of the variant",
    "NOT translated (natives of the translator, modelled as in WB/Model/C08.lean): Data_K.Xbar(name, der) = bar name der "
    "(incl. how Data_K_R derives rotAA, rotAAab, CCab_antisym), Data_K.covariant (which builds Matrix_ln / Matrix_GenDer_ln "
    "objects whose LIVE constructors and methods are then executed), V_covariant (Matrix_ln with ln() = zeros), E_K, dEig_inv, "
    "delE_K = re(diag Xbar('Ham',1)), _R_to_k_H(get_R_mat(name)) = bar name 0; Transform.__call__ as (factor, conj, transpose)",
    "regenerated from the live code every run: declared transformTR/transformInv of every formula class x kwargs variant, "
    "calculator-level overrides (InjectionCurrent), the (name, der) map of get_transform_TR/get_transform_Inv",
    "assumed: a TR-symmetric (spinless) model has real X(R) for Ham, AA, BB, CCab, FF, GG and imaginary X(R) for CC, OO, SS, "
    "SH, SA, SHA, SR, SHR; an inversion-symmetric model has X_ij(-R+2(t_i-t_j)) = sigma p_i p_j X_ij(R) (sigma=-1 for AA, BB, "
    "SA, SHA, SR, SHR) - the same tables as sym_wann_2.parity_TR/parity_I; gauge covariance (C04) allows U(-k)=conj U(k)",
    "checked, not proved: that the structure terms denote what the Python computes (grade of each term = parity measured on "
    "the real code); the axis symmetries in tauFacts are proved elementwise (band pair fixed), their use for sums over band "
    "groups relies on additivity",
    "result level (oracle): every static calculator with k_resolved x tetra, tabulators with/without ibands, dynamic and SDCT "
    "calculators with Lorentzian/Gaussian smearing and kBT variants are called on Data_K objects at k and -k; checked: the "
    "result's declared transforms equal the formula's (or the calculator-level override) and result(-k) = the result's own "
    "transform of result(k); the result construction sites (which formula attribute goes to which transform keyword) are "
    "read from the ast of StaticCalculator/DynamicCalculator/Tabulator.__call__",
    "band blocks (nn/ln/nl/ll), eps-slices, axis permutations, delta products and traces are index operations (`lin`): "
    "which index goes where is not modelled, only that the operation is real-linear",
]
RULE = ("every Formula class reachable from calculators.static/tabulate/dynamic/sdct (closure over sub-formula attributes), "
        "each with its kwargs variants (internal/external terms, OO_uIu, FF_rotAA, CCab_antisym, sign, spin-current type, "
        "SDCT sym/asym and term switches), evaluated at k and -k in random TR-symmetric and inversion-symmetric models for "
        "several band groups / band-group pairs; non-trivial = the same comparison fails by > 1e-3 relative in an "
        "asymmetric companion model; distinct = distinct (class, variant, symmetry, model, k, group)")

KF_SDCT = "C08-sdct-surfII-asym-axes"
KF_FFGG = "C08-transformTR-FF-GG-latent"
KF_THAB = "C08-transformTR-tildeHab-latent"
FFGG_NAMES = ("FF", "GG", "rotAAab", "CCab_antisym")

# ---------------------------------------------------------------------------------------------
# symmetric random models (derived reality conditions; cross-checked against sym_wann_2 in `tables`)

PAR_TR = dict(Ham=1, AA=1, BB=1, CC=-1, CCab=1, SS=-1, OO=-1, GG=1, FF=1, SH=-1, SA=-1, SHA=-1, SR=-1, SHR=-1)
PAR_I = dict(Ham=1, AA=-1, BB=-1, CC=1, CCab=1, SS=1, OO=1, GG=1, FF=1, SH=1, SA=-1, SHA=-1, SR=-1, SHR=-1)
HERM = ("Ham", "AA", "SS", "CC", "OO")
FLAGS = dict(berry=True, morb=True, spin=True, SHCryoo=True, SHCqiao=True, OSD=True, keepOOGG=True, FF=True)


def _wb():
    with quiet():
        import wannierberri as wb  # noqa
    return wb


def base_system(rs, nw, m=1, centers_red=None):
    """random System_R on the full box [-m,m]^3 with every real-space matrix the formulas can ask for"""
    from wannierberri.system.system_random import get_system_random
    from wannierberri.fourier.rvectors import Rvectors
    np.random.seed(int(rs.randint(0, 2 ** 31 - 1)))
    lattice = np.eye(3) * rs.uniform(0.9, 1.3) + rs.uniform(-0.25, 0.25, (3, 3))
    if np.linalg.det(lattice) < 0:
        lattice = -lattice
    with quiet():
        s = get_system_random(nw, nRvec=(2 * m + 1) ** 3, max_R=m, real_lattice=lattice, **FLAGS)
        if centers_red is None:
            centers_red = rs.uniform(0, 1, (nw, 3))
        s.wannier_centers_cart = np.array(centers_red, dtype=float).dot(s.real_lattice)
        s.clear_cached_wcc()
        s.rvec = Rvectors(lattice=s.real_lattice, iRvec=s.rvec.iRvec, shifts_left_red=s.wannier_centers_red)
    nR = s.rvec.nRvec
    # CCab is never produced by the repository's own generators: add it (the `_test` formulas can use it)
    s.set_R_mat("CCab", np.zeros((nR, nw, nw, 3, 3), dtype=complex))
    # the generator fills the matrices while iterating over a SET of names (order depends on PYTHONHASHSEED):
    # redraw every matrix from `rs` in sorted order so that a model is a function of the seed alone
    order = np.lexsort(s.rvec.iRvec.T[::-1])
    inv_order = np.argsort(order)
    dec = np.exp(-0.7 * np.linalg.norm(s.rvec.iRvec, axis=1))
    for key in sorted(s._XX_R):
        shape = s.get_R_mat(key).shape
        X = (rs.uniform(-0.5, 0.5, shape) + 1j * rs.uniform(-0.5, 0.5, shape))[inv_order]
        s.set_R_mat(key, X * dec.reshape((-1,) + (1,) * (X.ndim - 1)), reset=True)
    # Hermiticity where the code assumes it
    for key in list(s._XX_R):
        X = s.get_R_mat(key)
        if key in HERM:
            s.set_R_mat(key, 0.5 * (X + s.rvec.conj_XX_R(X)), reset=True)
        elif key == "GG":
            X = 0.5 * (X + X.swapaxes(3, 4))
            s.set_R_mat(key, 0.5 * (X + s.rvec.conj_XX_R(X)), reset=True)
        elif key in ("FF", "CCab"):
            s.set_R_mat(key, 0.5 * (X + s.rvec.conj_XX_R(X).swapaxes(3, 4)), reset=True)
    AA = s.get_R_mat("AA")
    AA[s.rvec.iR0, np.arange(nw), np.arange(nw)] = 0
    return s


def make_TR(s):
    """time-reversal symmetric (spinless, T = K): X(R) real for TR-even operators, imaginary for TR-odd ones"""
    for key in list(s._XX_R):
        X = s.get_R_mat(key)
        s.set_R_mat(key, X.real.astype(complex) if PAR_TR[key] == 1 else 1j * X.imag, reset=True)


def make_Inv(s, parities):
    """inversion about the origin; centres t_i with 2 t_i integer, Wannier function i has parity p_i:
       X_ij(-R + 2(t_i - t_j)) = sigma_X p_i p_j X_ij(R)   (entries whose image leaves the box are set to zero)"""
    t2 = np.round(2 * s.wannier_centers_red).astype(int)
    assert np.allclose(t2, 2 * s.wannier_centers_red)
    iR = s.rvec.iRvec
    index = {tuple(R): i for i, R in enumerate(iR)}
    nw = s.num_wann
    for key in list(s._XX_R):
        X = s.get_R_mat(key)
        Y = np.zeros_like(X)
        for i in range(nw):
            for j in range(nw):
                sg = PAR_I[key] * parities[i] * parities[j]
                for ir, R in enumerate(iR):
                    irp = index.get(tuple(-R + t2[i] - t2[j]))
                    if irp is not None:
                        Y[ir, i, j] = 0.5 * (X[ir, i, j] + sg * X[irp, i, j])
        s.set_R_mat(key, Y, reset=True)


def build_model(rs, kind, nw):
    if kind == "I":
        s = base_system(rs, nw, centers_red=rs.randint(0, 2, (nw, 3)) / 2)
        make_Inv(s, rs.choice([-1, 1], nw))
    else:
        s = base_system(rs, nw)
        if kind == "TR":
            make_TR(s)
    return s


def dataK(s, k):
    from wannierberri.grid import Grid
    from wannierberri.data_K import Data_K_R
    with quiet():
        return Data_K_R(s, grid=Grid(system=s, NK=1, NKFFT=1), dK=np.array(k, dtype=float))


def good_k(rs, s, mingap=0.03):
    """a random k whose bands are separated (the formulas divide by energy differences)"""
    for _ in range(50):
        k = rs.uniform(-0.5, 0.5, 3)
        E = dataK(s, k).E_K[0]
        if np.min(np.diff(E)) > mingap:
            return k
    return k


# ---------------------------------------------------------------------------------------------
# enumeration of the formula classes and their declared transforms from the live code

LEAN_FNAMES = set("""Identity Der3E Omega DerOmega Der2Omega Hamiltonian Velocity Spin DerSpin Der2Spin Morb_H Morb_Hpm morb
DerMorb_H DerMorb Dermorb Der2Morb_H Der2Morb Der2morb SpinVelocity SpinOmega VelOmega VelHplus VelSpin VelVel VelVelVel
MassVel MassMass VelMassVel OmegaS OmegaOmega OmegaHplus emcha_surf NLDrude_Z_spin NLDrude_Z_orb_Hplus NLDrude_Z_orb_Omega
QuantumMetric_ab DerQuantumMetric_ab_d VelDQM tildeHab tildeHab_d tildeFc tildeHGc tildeFc_d tildeHGc_d Der_morb Eavln InvMass
DerWln Covariant Formula_dyn_ident Formula_OptCond Formula_SHC ShiftCurrentFormula InjectionCurrentFormula
Formula_SDCT_sea_I Formula_SDCT_sea_II Formula_SDCT_surf_I Formula_SDCT_surf_II""".split())
GENERIC = {"Formula", "Formula_ln", "Matrix_ln", "Matrix_GenDer_ln", "FormulaProduct", "FormulaSum", "DeltaProduct",
           "FormulaAntiSymmetric", "FormulaSymmetric", "Formula_SDCT", "V"}
HEAVY = {"Der2Morb", "Der2morb", "Der2Morb_H", "NLDrude_Z_orb_Hplus", "NLDrude_Z_orb_Omega", "emcha_surf", "Der2Omega"}


def tdecl(T):
    """Transform -> (odd, conj, transpose) or None / 'unsupported'"""
    if T is None:
        return None
    if getattr(T, "swap_axes", None) is not None:
        return "unsupported"
    tp = None if T.transpose_axes is None else tuple(int(a) for a in T.transpose_axes)
    return (int(T.factor) == -1, bool(T.conj), tp)


def calculators():
    """(static, tabulators, dynamic incl. sdct terms) instantiated from the live modules"""
    wb = _wb()
    from wannierberri.calculators import static, tabulate, dynamic, sdct
    ef = np.linspace(-0.5, 0.5, 5)
    om = np.linspace(0.1, 1.0, 3)
    out = {"static": [], "tab": [], "dyn": [], "broken": []}
    for name, cls in inspect.getmembers(static, inspect.isclass):
        if issubclass(cls, static.StaticCalculator) and cls is not static.StaticCalculator and cls.__module__ == static.__name__:
            try:
                with quiet():
                    c = cls(Efermi=ef, fder=0) if name == "_DOS" else cls(Efermi=ef)
                out["static"].append((name, cls, c))
            except Exception as e:  # noqa
                out["broken"].append((f"static.{name}", repr(e)[:120]))
    for name, cls in inspect.getmembers(tabulate, inspect.isclass):
        if issubclass(cls, tabulate.Tabulator) and cls is not tabulate.Tabulator and cls.__module__ == tabulate.__name__:
            try:
                with quiet():
                    c = cls()
                out["tab"].append((name, cls, c))
            except Exception as e:  # noqa
                out["broken"].append((f"tabulate.{name}", repr(e)[:120]))
    for mod in (dynamic, sdct):
        for name, cls in inspect.getmembers(mod, inspect.isclass):
            if issubclass(cls, dynamic.DynamicCalculator) and cls.__module__ == mod.__name__ and not inspect.isabstract(cls) \
                    and cls is not dynamic.DynamicCalculator and not name.startswith("_"):
                kw = dict(Efermi=ef, omega=om, kBT=0.05)
                if "sc_eta" in inspect.signature(cls.__init__).parameters:
                    kw["sc_eta"] = 0.04
                try:
                    with quiet():
                        c = cls(**kw)
                    out["dyn"].append((name, cls, c, kw))
                except Exception as e:  # noqa
                    out["broken"].append((f"{mod.__name__.split('.')[-1]}.{name}", repr(e)[:120]))
    return out


def formula_modules():
    from wannierberri.formula import covariant, basic, elementary, sdct as fsdct
    from wannierberri.calculators import dynamic
    return [covariant, basic, elementary, fsdct, dynamic]


def is_formula_class(cls):
    from wannierberri.formula import Formula
    return inspect.isclass(cls) and issubclass(cls, Formula)


def variants_for(cls, thorough):
    """kwargs variants of a Formula_ln class, from its constructor signature"""
    sig = inspect.signature(cls.__init__).parameters
    has_kw = any(p.kind == inspect.Parameter.VAR_KEYWORD for p in sig.values())
    name = cls.__name__
    base = [{}]
    if "spin_current_type" in sig:
        base = [dict(spin_current_type=t) for t in ("ryoo", "qiao", "simple")]
    if "sign" in sig:
        base = [dict(b, sign=sg) for b in base for sg in ((1, -1, 0) if thorough or name not in HEAVY else (1, -1))]
    out = []
    for b in base:
        out.append(dict(b))
        if "external_terms" in sig and not has_kw:
            out.append(dict(b, external_terms=not sig["external_terms"].default))
        if has_kw:
            out.append(dict(b, external_terms=False))
            out.append(dict(b, internal_terms=False))
            if thorough or name not in HEAVY:
                out.append(dict(b, OO_uIu=True))
                out.append(dict(b, FF_rotAA=True, CCab_antisym=True))
    # the qiao / ryoo spin currents are not implemented without external terms
    out = [v for v in out if not (v.get("spin_current_type") in ("ryoo", "qiao") and v.get("external_terms") is False)]
    # de-duplicate
    seen, res = set(), []
    for v in out:
        key = tuple(sorted(v.items()))
        if key not in seen:
            seen.add(key)
            res.append(v)
    return res


def sub_formulas(obj, depth=0):
    """Formula instances stored in the attributes of a formula object"""
    from wannierberri.formula import Formula
    found = []
    if depth > 6:
        return found
    for val in vars(obj).values():
        items = val if isinstance(val, (list, tuple)) else [val]
        for it in items:
            if isinstance(it, Formula):
                found.append(it)
                found.extend(sub_formulas(it, depth + 1))
    return found


def lean_var(cls, obj, kwargs):
    """the Lean `Var` fields describing this instance (read back from the object where possible)"""
    sig = inspect.signature(cls.__init__).parameters
    v = {}
    has_kw = any(p.kind == inspect.Parameter.VAR_KEYWORD for p in sig.values())
    # containers (FormulaProduct, FormulaSum, FormulaAntiSymmetric ...) hand their kwargs to the sub-formulas
    # without keeping them: read the flags from the kwargs then
    if hasattr(obj, "internal_terms"):
        v["int"] = bool(obj.internal_terms)
    elif has_kw and "internal_terms" in kwargs:
        v["int"] = bool(kwargs["internal_terms"])
    if hasattr(obj, "external_terms"):
        v["ext"] = bool(obj.external_terms)
    elif "external_terms" in sig:
        v["ext"] = bool(kwargs.get("external_terms", sig["external_terms"].default))
    elif has_kw and "external_terms" in kwargs:
        v["ext"] = bool(kwargs["external_terms"])
    if getattr(obj, "key_OO", "OO" if (has_kw and kwargs.get("OO_uIu")) else "rotAA") == "OO":
        v["oo"] = "OO"
    if getattr(obj, "key_FF", "rotAAab" if (has_kw and kwargs.get("FF_rotAA")) else "FF") == "rotAAab":
        v["ff"] = "rotAAab"
    if getattr(obj, "key_CCab", "CCab_antisym" if (has_kw and kwargs.get("CCab_antisym")) else "CCab") == "CCab_antisym":
        v["cc"] = "CCab_antisym"
    if "sign" in sig and hasattr(obj, "sign"):
        v["sign"] = int(obj.sign)
    for key in ("spin_current_type", "SHC_type"):
        if key in kwargs:
            v["sct"] = kwargs[key]
    if kwargs.get("shc_abc") is not None:
        v["sel"] = True
    for py, le in (("sym", "sym"), ("M1_terms", "m1"), ("E2_terms", "e2"), ("V_terms", "vt"), ("S_terms", "st")):
        if py in kwargs:
            v[le] = bool(kwargs[py])
    return v


def var_token(v):
    if not v:
        return "_"
    return ",".join(f"{k}={int(x) if isinstance(x, bool) else x}" for k, x in sorted(v.items()))


def var_lean(v):
    if not v:
        return "{}"
    parts = []
    for k, x in sorted(v.items()):
        if isinstance(x, bool):
            parts.append(f"{k} := {'true' if x else 'false'}")
        elif isinstance(x, int):
            parts.append(f"{k} := {x}" if x >= 0 else f"{k} := ({x})")
        else:
            parts.append(f"{k} := .{x}")
    return "{ " + ", ".join(parts) + " }"


VAR_FIELDS = [("int", True), ("ext", True), ("oo", "rotAA"), ("ff", "FF"), ("cc", "CCab"), ("sign", 1), ("sct", "ryoo"),
              ("sym", True), ("m1", True), ("e2", True), ("vt", True), ("st", False), ("name", "Ham"), ("der", 0),
              ("gender", False), ("sel", False)]


def var_lean_mk(v):
    """`Var.mk` with every field explicit (much cheaper to elaborate than structure-instance notation)"""
    parts = []
    for k, dflt in VAR_FIELDS:
        x = v.get(k, dflt)
        if isinstance(x, bool):
            parts.append("true" if x else "false")
        elif isinstance(x, int):
            parts.append(str(x) if x >= 0 else f"({x})")
        else:
            parts.append("." + str(x))
    return "(Var.mk " + " ".join(parts) + ")"


def decl_lean(d):
    odd, cj, tp = d
    t = "none" if tp is None else "some [" + ", ".join(str(a) for a in tp) + "]"
    return f"⟨{'true' if odd else 'false'}, {'true' if cj else 'false'}, {t}⟩"


class Spec:
    """one (formula class, kwargs) to check"""

    def __init__(self, kind, cls, kwargs, label, calc_T=None, make=None):
        self.kind = kind          # 'ln' (trace over band groups) | 'dyn' (trace_ln over pairs of groups) | 'cov'
        self.cls = cls
        self.kwargs = kwargs
        self.label = label
        self.calc_T = calc_T      # calculator-level override (TR, Inv) or None
        self.make = make or (lambda dk: cls(dk, **kwargs))
        self.fname = cls.__name__ if kind != "cov" else "Covariant"
        self.var = None
        self.decl = None          # (TR, Inv) as tdecl tuples / None

    def key(self):
        return f"{self.label}[{var_token(self.var or {})}]"


def enumerate_specs(ctx, thorough):
    """all (class, variant) pairs reachable from the calculators, with their declared transforms"""
    from wannierberri.formula import Formula_ln
    from wannierberri.data_K.data_K import get_transform_TR, get_transform_Inv
    calcs = calculators()
    rs = np.random.RandomState(12345)
    toy = build_model(rs, "none", 3)
    toydk = dataK(toy, good_k(rs, toy))      # instantiation only: one shared Data_K
    roots = {}
    for name, cls, c in calcs["static"] + calcs["tab"]:
        roots.setdefault(c.Formula, []).append(name)
    specs, unknown, notes = [], [], []
    # ---- Formula_ln classes: closure over sub-formulas
    todo, seen = list(roots), set()
    while todo:
        cls = todo.pop(0)
        if cls in seen or cls.__name__ in GENERIC:
            continue
        seen.add(cls)
        if not issubclass(cls, Formula_ln):
            continue
        for kw in variants_for(cls, thorough):
            try:
                with quiet():
                    obj = cls(toydk, **kw)
            except TypeError:
                continue
            except Exception as e:  # noqa
                notes.append(f"cannot instantiate {cls.__name__}({kw}): {type(e).__name__}: {str(e)[:80]}")
                continue
            for sub in sub_formulas(obj):
                if type(sub) not in seen and type(sub).__name__ not in GENERIC and type(sub).__module__.startswith("wannierberri.formula"):
                    todo.append(type(sub))
            d = (tdecl(getattr(obj, "transformTR", None)), tdecl(getattr(obj, "transformInv", None)))
            if d == (None, None):
                continue
            sp = Spec("ln", cls, kw, cls.__name__)
            sp.var = lean_var(cls, obj, kw)
            sp.decl = d
            specs.append(sp)
            if cls.__name__ not in LEAN_FNAMES:
                unknown.append(cls.__name__)
    # ---- dynamic formulas (calculator-level overrides included)
    sdct_term_sets = [dict(), dict(S_terms=True), dict(M1_terms=False, E2_terms=False),
                      dict(V_terms=False), dict(M1_terms=False, V_terms=False, S_terms=True)]
    for name, cls, c, ckw in calcs["dyn"]:
        F = c.Formula
        if F is None:
            continue
        ov = (tdecl(getattr(c, "transformTR", None)) if hasattr(c, "transformTR") else None,
              tdecl(getattr(c, "transformInv", None)) if hasattr(c, "transformInv") else None)
        base_kw = dict(c.kwargs_formula)
        vlist = []
        if "SHC_type" in base_kw:
            for t in ("ryoo", "qiao", "simple"):
                vlist.append(dict(base_kw, SHC_type=t))
            vlist.append(dict(base_kw, SHC_type="simple", external_terms=False))
            vlist.append(dict(base_kw, SHC_type="ryoo", shc_abc=(1, 2, 3)))
        elif "sym" in base_kw:
            for ts in sdct_term_sets:
                kw = dict(base_kw, **ts)
                if not any(kw[f"{t}_terms"] for t in F.has_terms):
                    continue
                vlist.append(kw)
            vlist.append(dict(base_kw, external_terms=False))
        else:
            vlist = [dict(base_kw), dict(base_kw, external_terms=False)]
        for kw in vlist:
            try:
                with quiet():
                    obj = F(toydk, **kw)
            except TypeError:
                continue
            except Exception as e:  # noqa
                notes.append(f"cannot instantiate {F.__name__}({kw}): {type(e).__name__}: {str(e)[:80]}")
                continue
            d = [tdecl(getattr(obj, "transformTR", None)), tdecl(getattr(obj, "transformInv", None))]
            for i in (0, 1):
                if ov[i] is not None:
                    d[i] = ov[i]
            if d == [None, None]:
                continue
            sp = Spec("dyn", F, kw, f"{F.__name__}@{name}", calc_T=ov if ov != (None, None) else None)
            sp.var = lean_var(F, obj, kw)
            sp.decl = tuple(d)
            specs.append(sp)
            if F.__name__ not in LEAN_FNAMES:
                unknown.append(F.__name__)
    # ---- the Matrix_ln objects of Data_K.covariant and the (name, der) map
    parity_rows = []
    cand = ["Ham", "AA", "BB", "CC", "CCab", "FF", "GG", "OO", "SS", "SH", "SA", "SHA", "SR", "SHR",
            "rotAA", "rotAAab", "CCab_antisym", "D"]
    for nm in cand:
        for der in range(4):
            row = []
            for fn in (get_transform_TR, get_transform_Inv):
                try:
                    row.append(("ok", tdecl(fn(nm, der))))
                except ValueError:
                    row.append(("unknown", None))
            if row[0][0] == "unknown" and row[1][0] == "unknown":
                continue
            parity_rows.append((nm, der, row[0][1], row[1][1]))
    for nm, der, dtr, dinv in parity_rows:
        if nm in ("D", "CCab") or (dtr, dinv) == (None, None):
            continue
        for gender in ((False, True) if der == 1 else (False,)):
            if nm in ("SH", "SA", "SHA", "SR", "SHR"):
                continue
            kw = dict(gender=1) if gender else dict(commader=der)
            sp = Spec("cov", None, kw, f"covariant({nm},{'gender=1' if gender else 'commader=%d' % der})",
                      make=(lambda dk, nm=nm, kw=kw: dk.covariant(nm, **kw)))
            sp.fname = "Covariant"
            sp.var = dict(name=nm, der=der, gender=gender)
            sp.decl = (dtr, dinv)
            sp.name = nm
            specs.append(sp)
    return specs, parity_rows, sorted(set(unknown)), notes, calcs


def select_specs(specs, thorough):
    """numerical passes: every class; in the quick tier the heavy classes and the high-derivative covariant
       matrices are evaluated for their principal variants only (the Lean table always covers all variants)"""
    if thorough:
        return list(specs)
    out = []
    for sp in specs:
        kw = sp.kwargs
        if sp.kind == "cov":
            if sp.var["der"] >= 3:
                continue
        elif sp.fname in HEAVY:
            if any(k in kw for k in ("OO_uIu", "FF_rotAA", "internal_terms")) or kw.get("sign") == 0:
                continue
        elif kw.get("FF_rotAA") and sp.fname not in ("tildeFc", "tildeFc_d", "tildeHGc", "tildeHGc_d", "Der_morb",
                                                      "QuantumMetric_ab", "DerQuantumMetric_ab_d", "tildeHab", "tildeHab_d"):
            continue
        out.append(sp)
    return out


def known_class(sp, which):
    """narrow input classes of the registered findings; `which` = 0 (TR) / 1 (Inv)"""
    if which != 0:
        return None
    if sp.fname == "Formula_SDCT_surf_II" and sp.kwargs.get("sym") is False:
        return KF_SDCT
    if sp.kind == "cov" and sp.var["name"] in FFGG_NAMES:
        return KF_FFGG
    if sp.fname in ("tildeHab", "tildeHab_d"):
        return KF_THAB
    return None


# ---------------------------------------------------------------------------------------------
# regenerated Lean tables

def lean_tables(specs, parity_rows, table_name="table", parity_name="parityMap"):
    rows, skipped = [], []
    for sp in specs:
        if sp.fname not in LEAN_FNAMES:
            continue
        dtr, dinv = sp.decl
        if "unsupported" in (dtr, dinv):
            continue
        if known_class(sp, 0):
            skipped.append(sp.key())
            continue
        if dtr is None or dinv is None:
            continue
        rows.append(f"  ⟨.{sp.fname}, {var_lean(sp.var)}, {decl_lean(dtr)}, {decl_lean(dinv)}⟩")
    prow = []
    for nm, der, dtr, dinv in parity_rows:
        if nm == "D":
            continue
        if nm in FFGG_NAMES:
            dtr = None   # known finding: reported by the oracle, excluded here
        o = lambda d: "none" if d is None else f"some {decl_lean(d)}"
        prow.append(f"  ⟨.{nm}, {der}, {o(dtr)}, {o(dinv)}⟩")
    # de-duplicate, keep order
    rows = list(dict.fromkeys(rows))
    txt = (f"def {table_name} : List Row := [\n" + ",\n".join(rows) + "\n]\n\n"
           f"def {parity_name} : List ParRow := [\n" + ",\n".join(prow) + "\n]\n")
    return txt, rows, prow, skipped


def tables(ctx):
    """extract the declared transforms from the live code, write the Lean table and re-check it"""
    thorough = ctx.tier == "thorough"
    with quiet():
        specs, parity_rows, unknown, notes, calcs = enumerate_specs(ctx, thorough)
    ctx._c08 = dict(specs=specs, parity_rows=parity_rows, calcs=calcs)
    for n in notes:
        ctx.note(n)
    for b in calcs["broken"]:
        ctx.note(f"calculator cannot be constructed (outside C08): {b[0]}: {b[1]}")
    for u in unknown:
        ctx.mismatch(f"formula class {u} is reachable from a calculator but has no transcribed structure term",
                     dict(cls=u))
    for sp in specs:
        if "unsupported" in sp.decl:
            ctx.mismatch(f"{sp.key()} declares a Transform with swap_axes, which the model cannot express", dict(spec=sp.key()))
    txt, rows, prow, skipped = lean_tables(specs, parity_rows)
    ctx.count("table.parity_rows", len(prow))
    ctx.count("table.rows_excluded_known_finding", len(skipped))
    # ---- translate the LIVE source of every class into a structure term
    from . import _c08_translate as T
    tr = T.Translator()
    lines, fallback_rows, seen, fb_classes, tr_classes = [], [], set(), {}, set()
    for sp in specs:
        if sp.fname not in LEAN_FNAMES or "unsupported" in sp.decl or sp.decl[0] is None or sp.decl[1] is None:
            continue
        row = f"⟨.{sp.fname}, {var_lean_mk(sp.var)}, {decl_lean(sp.decl[0])}, {decl_lean(sp.decl[1])}⟩"
        if row in seen:
            continue
        seen.add(row)
        flag = known_class(sp, 0) is None
        try:
            with quiet():
                node = T.translate_spec(tr, sp)
            lines.append((sp, row, node, flag))
            tr_classes.add(sp.fname if sp.kind != "cov" else f"covariant({sp.var['name']})")
        except T.Untranslatable as e:
            fb_classes.setdefault(sp.fname, str(e)[:120])
            if flag:
                fallback_rows.append("  " + row)
        except Exception as e:  # noqa  (a bug of the translator must not hide behind a pass: fall back, and say so)
            fb_classes.setdefault(sp.fname, f"translator error {type(e).__name__}: {str(e)[:100]}")
            if flag:
                fallback_rows.append("  " + row)
    parity_rows_lean = [(nm, der) for nm, der, _, _ in parity_rows if nm != "D"]
    defs, exprs, n_nodes, n_defs = T.render(tr.pool, [n for _, _, n, _ in lines])
    ctx.count("table.rows", len(lines) + len(fallback_rows))
    ctx.count("table.rows_translated", len(lines))
    ctx.count("table.rows_hand_term_fallback", len(fallback_rows))
    ctx.count("translator.pexpr_nodes", n_nodes)
    st = ctx._c08
    st["translated"] = dict(classes=sorted(tr_classes), fallback=fb_classes)
    body = ",\n".join(f"  ({row}, {exprs[node]}, {'true' if flag else 'false'})" for sp, row, node, flag in lines)
    src = ("import WB.Model.C08\nopen WB.C08\n\n"
           "noncomputable section\n"
           "/-! structure terms TRANSLATED from the live Python source (shared sub-terms as definitions) -/\n" + defs + "\n\n"
           "/-- (row extracted from the live declarations, translated term, are the declarations checked) -/\n"
           "def table : List (Row × PExpr × Bool) := [\n" + body + "\n]\n\n"
           "/-- rows whose class is outside the translated fragment: checked with the hand-written term -/\n"
           "def fallbackTable : List Row := [\n" + ",\n".join(fallback_rows) + "\n]\n\n"
           "def parityMap : List ParRow := [\n" + ",\n".join(prow) + "\n]\n\n"
           "theorem translated_table_ok : checkAll table = true := by decide +kernel\n"
           "theorem declared_table_ok : checkTable fallbackTable = true := by decide +kernel\n"
           "theorem get_transform_rule : checkParity parityMap = true := by decide +kernel\n"
           "#print axioms translated_table_ok\n#print axioms declared_table_ok\n#print axioms get_transform_rule\n"
           "#eval IO.println (\"GRADES \" ++ \";\".intercalate (table.map fun p => showGrade (grade (termOf p.1.f p.1.v)) ++ \" \" ++ "
           "WB.IO.showBool (isReal (termOf p.1.f p.1.v))))\n"
           "#eval IO.println (\"BARS \" ++ \";\".intercalate (parityMap.map fun p => showGrade (barGrade p.name p.der)))\n")
    ok, out = ctx.lean_file("C08Table.lean", src)
    st["hand_grades"], st["bar_grades"] = {}, {}
    for l in out.split("\n"):
        if l.startswith("GRADES "):
            gs = l[len("GRADES "):].split(";")
            if len(gs) == len(lines):
                st["hand_grades"] = {sp.key(): g for (sp, row, node, flag), g in zip(lines, gs)}
        if l.startswith("BARS "):
            gs = l[len("BARS "):].split(";")
            if len(gs) == len(parity_rows_lean):
                st["bar_grades"] = {key: g for key, g in zip(parity_rows_lean, gs)}
    ctx.sample(dict(generated_rows=[f"({row}, {exprs[node][:60]}, {flag})" for sp, row, node, flag in lines[:3]], parity_rows=prow[:3]))
    note = (f"translator: {len(lines)} of {len(lines) + len(fallback_rows) + sum(1 for _ in ())} table rows "
            f"({len(tr_classes)} classes / covariant matrices) carry a structure term translated from the live source "
            f"({n_nodes} PExpr nodes, {n_defs} shared definitions); hand-term fallback: "
            + (", ".join(f"{k} ({v})" for k, v in sorted(fb_classes.items())) if fb_classes else "none"))
    ctx.note(note)
    if ok and "translated_table_ok" in out and "sorryAx" not in out and "error" not in out:
        ctx.note(f"regenerated table: {len(lines)} translated rows (grade and realness equal to the hand-written term; declared "
                 f"transforms validated on the translated term for {sum(1 for l in lines if l[3])} rows), "
                 f"{len(fallback_rows)} hand-term rows and {len(prow)} (name,der) rows re-proved by decide +kernel")
        return
    # find the failing rows
    src2 = ("import WB.Model.C08\nopen WB.C08\n\n" + defs + "\n\n"
            "def  table : List (Row × PExpr × Bool) := [\n" + body + "\n]\n"
            "def fallbackTable : List Row := [\n" + ",\n".join(fallback_rows) + "\n]\n"
            "def parityMap : List ParRow := [\n" + ",\n".join(prow) + "\n]\n"
            "#eval (table.zipIdx.filter (fun p => !(decide (grade p.1.2.1 = grade (termOf p.1.1.f p.1.1.v)) && "
            "(isReal p.1.2.1 == isReal (termOf p.1.1.f p.1.1.v))))).map "
            "(fun p => (p.2, showGrade (grade p.1.2.1), isReal p.1.2.1, showGrade (grade (termOf p.1.1.f p.1.1.v)), isReal (termOf p.1.1.f p.1.1.v)))\n"
            "#eval (table.zipIdx.filter (fun p => p.1.2.2 && !checkRowTerm p.1.2.1 p.1.1)).map (·.2)\n"
            "#eval (fallbackTable.zipIdx.filter (fun p => !checkRow p.1)).map (·.2)\n"
            "#eval (parityMap.zipIdx.filter (fun p => !checkParRow p.1)).map (·.2)\n")
    ok2, out2 = ctx.lean_file("C08TableDiag.lean", src2)
    found = 0
    try:
        flat = " ".join(out2.split("\n"))
        import re as _re
        groups = _re.findall(r"\[(.*?)\](?=\s*\[|\s*$)", flat)
        tuples = _re.findall(r"\((\d+), \"([^\"]*)\", (true|false), \"([^\"]*)\", (true|false)\)", groups[0]) if groups else []
        for i, gt, rt, gh, rh in tuples:
            sp, row = lines[int(i)][0], lines[int(i)][1]
            found += 1
            ctx.mismatch(f"{sp.key()}: the structure term translated from the live source of {sp.fname} has grade "
                         f"[{gt}, real={rt}] but the hand-written term has [{gh}, real={rh}] - the body of the class "
                         f"(or of a class it uses) no longer matches the model", dict(row=row, translated=(gt, rt), hand=(gh, rh)))
        for gi, tab, what in ((1, [l[1] for l in lines], "translated term"), (2, fallback_rows, "hand-written term"), (3, prow, "(name,der) rule")):
            if len(groups) > gi:
                for x in groups[gi].split(","):
                    if x.strip().isdigit():
                        found += 1
                        ctx.mismatch(f"declared transform contradicts the graded calculus ({what}): " + tab[int(x)].strip(),
                                     dict(row=tab[int(x)].strip()))
    except Exception as e:  # noqa
        ctx.note(f"could not localise the failing rows: {type(e).__name__}: {e}")
    if not found:
        ctx.mismatch("generated table does not compile: " + out[-600:], dict(out=out[-1500:], diag=out2[-800:]))


# ---------------------------------------------------------------------------------------------
# evaluation on the real code

def apply_T(T, v):
    """apply a declared Transform the way the results do (arrays always carry leading non-cartesian axes)"""
    w = np.array(v, dtype=complex)[None].copy()
    return T(w)[0]


def rebuild_T(d):
    from wannierberri.symmetry.point_symmetry import Transform
    odd, cj, tp = d
    return Transform(factor=-1 if odd else 1, conj=cj, transpose_axes=tp)


def groups_for(rs, nw):
    """band groups (inn) as contiguous ranges, plus pairs of groups for trace_ln"""
    cuts = sorted(set([0, nw] + list(rs.choice(np.arange(1, nw), size=min(2, nw - 1), replace=False))))
    grp = [(a, b) for a, b in zip(cuts, cuts[1:])]
    return grp


def eval_spec(sp, dk, grp, nw):
    """values of the observable on the Data_K object `dk`: list of arrays (one per band group / pair of groups)"""
    with quiet():
        f = sp.make(dk)
    vals = []
    if sp.kind in ("ln", "cov"):
        additive = getattr(f, "additive", True)
        additive = additive() if callable(additive) else additive
        for a, b in grp:
            if additive:
                inn = np.arange(a, b)
                out = np.concatenate((np.arange(0, a), np.arange(b, nw)))
            else:
                inn = np.arange(0, b)
                out = np.arange(b, nw)
            if len(out) == 0 and sp.fname in ("SpinOmega",):
                continue
            vals.append(np.array(f.trace(0, inn, out)))
    else:
        for a, b in grp:
            for c, d in grp:
                vals.append(np.array(f.trace_ln(0, np.arange(a, b), np.arange(c, d))))
    return vals


def rel_dev(T, v1, v2):
    scale = max(1.0, np.abs(v1).max(), np.abs(v2).max())
    return float(np.abs(apply_T(T, v1) - v2).max() / scale)


def measure(ctx, rs, specs, nmodels, nk, nw_choices, with_companion=True, kinds=None):
    """evaluate every spec at k and -k in TR / inversion symmetric models (and an asymmetric companion).
       returns records: dict(spec, kind, dev=[TR-declared dev, Inv-declared dev], plain parity, magnitude)"""
    recs = []
    kinds = kinds or (["TR", "I"] + (["none"] if with_companion else []))
    for im in range(nmodels):
        for kind in kinds:
            for ik in range(nk):
                mseed = int(rs.randint(0, 2 ** 31 - 1))
                recs.extend(measure_one(specs, kind, mseed, nw_choices))
    return recs


def measure_one(specs, kind, mseed, nw_choices):
    """one model + one k-point, completely determined by (kind, mseed, nw_choices): this is what a replay re-runs"""
    r1 = np.random.RandomState(mseed)
    nw = int(r1.choice(nw_choices))
    with quiet():
        s = build_model(r1, kind, nw)
    k = good_k(r1, s)
    grp = groups_for(r1, nw)
    # as in a real run, all formulas of one K-point share the Data_K object
    dk1, dk2 = dataK(s, k), dataK(s, -k)
    recs = []
    for sp in specs:
        case = dict(formula=sp.key(), label=sp.label, kwargs=sp.kwargs, model=kind, model_seed=mseed,
                    nw_choices=list(nw_choices), num_wann=nw, k=k.tolist(), groups=grp)
        try:
            with quiet():
                v1 = eval_spec(sp, dk1, grp, nw)
                v2 = eval_spec(sp, dk2, grp, nw)
        except NotImplementedError:
            continue
        except Exception as e:  # noqa
            recs.append(dict(sp=sp, kind=kind, error=f"{type(e).__name__}: {str(e)[:200]}", case=case))
            continue
        recs.append(dict(sp=sp, kind=kind, v1=v1, v2=v2, case=case))
    return recs


def plain_parity(v1s, v2s, conj):
    """'even' / 'odd' / 'zero' / 'none': v(-k) = ± conj^c v(k) for all groups"""
    mag = max([np.abs(v).max() for v in v1s] + [0.0])
    if mag < 1e-12:
        return "zero"
    c = (lambda x: np.conj(x)) if conj else (lambda x: x)
    ev = max(np.abs(c(a) - b).max() for a, b in zip(v1s, v2s))
    od = max(np.abs(c(a) + b).max() for a, b in zip(v1s, v2s))
    tol = 1e-9 * max(1.0, mag)
    if ev <= tol:
        return "even"
    if od <= tol:
        return "odd"
    return "none"


# ---------------------------------------------------------------------------------------------
# correspondence: Lean grade of the transcribed term = parity measured on the real code

def corr(ctx):
    st = ctx._c08
    specs = [sp for sp in select_specs(st["specs"], ctx.tier == "thorough") if sp.fname in LEAN_FNAMES]
    rs = np.random.RandomState(ctx.rng.getrandbits(31))
    recs = measure(ctx, rs, specs, nmodels=1, nk=1, nw_choices=[4], with_companion=False)
    st["recs"] = recs
    measured = {}
    for r in recs:
        if "error" in r or r["kind"] == "none":
            continue
        key = r["sp"].key()
        # TR: rev x = ± conj x ; inversion: rev x = ± x
        measured.setdefault(key, {})[r["kind"]] = plain_parity(r["v1"], r["v2"], conj=(r["kind"] == "TR"))
    keys = [k for k in measured if "TR" in measured[k] and "I" in measured[k]]
    by_key = {sp.key(): sp for sp in specs}
    lines = [f"grade {by_key[k].fname} {var_token(by_key[k].var)}" for k in keys]
    names = sorted({(nm, der) for nm, der, _, _ in st["parity_rows"] if nm not in ("D",)})
    lines2 = [f"bar {nm} {der}" for nm, der in names]
    # the grades of the hand-written terms (= those of the translated terms, by `translated_table_ok`) were printed by
    # the generated table file; only what is missing there is asked from the model driver
    hg, bg = st.get("hand_grades", {}), st.get("bar_grades", {})
    need = [i for i, k in enumerate(keys) if k not in hg]
    need2 = [i for i, nd in enumerate(names) if nd not in bg]
    drv = ctx.lean([lines[i] for i in need] + [lines2[i] for i in need2]) if (need or need2) else []
    out = [hg.get(k) for k in keys]
    for i, o in zip(need, drv[:len(need)]):
        out[i] = o
    out2 = [bg.get(nd) for nd in names]
    for i, o in zip(need2, drv[len(need):]):
        out2[i] = o
    ctx.corr_cases += len(keys) + len(names) - len(need) - len(need2)
    for k, l, o in zip(keys, lines, out):
        m = measured[k]
        ctx.case(signature=l, nontrivial=True)
        ctx.count("corr.grade." + o.split(" 1")[0].split(" 0")[0])
        if o.startswith("bad"):
            ctx.mismatch(f"{k}: transcribed term is ill-graded ({o})", dict(line=l))
            continue
        if o.startswith("zero"):
            if m["TR"] != "zero" or m["I"] != "zero":
                ctx.mismatch(f"{k}: model says the observable vanishes, the code gives {m}", dict(line=l, measured=m))
            continue
        gtr, ginv = o.split()[0], o.split()[1]
        for kind, g in (("TR", gtr), ("I", ginv)):
            if m[kind] == "zero":
                continue   # vanishes numerically for this variant (e.g. Re tr of an anti-Hermitian block): no information
            if m[kind] != g:
                ctx.mismatch(f"{k}: Lean grade {kind}={g} but the real code is {m[kind]} under k -> -k", dict(line=l, measured=m, lean=o))
    # the (name, der) rule
    ctx.sample(dict(protocol_line=lines[0], model=out[0]))
    ctx.sample(dict(protocol_line=lines2[0], model=out2[0]))
    for (nm, der), o in zip(names, out2):
        ctx.case(signature=("bar", nm, der), nontrivial=True)
        key = None
        for sp in specs:
            if sp.kind == "cov" and sp.var == dict(name=nm, der=der, gender=False):
                key = sp.key()
        if key in measured and "TR" in measured[key]:
            m = measured[key]
            for kind, g in (("TR", o.split()[0]), ("I", o.split()[1])):
                if m[kind] not in ("zero", g):
                    ctx.mismatch(f"Xbar({nm},{der}): Lean parity {kind}={g}, real code {m[kind]}", dict(name=nm, der=der, measured=m))


# ---------------------------------------------------------------------------------------------
# property oracle

def check_records(ctx, recs):
    """the property itself: value(-k) = DECLARED transform of value(k) in the symmetric models"""
    comp = {}
    for r in recs:
        sp = r["sp"]
        if "error" in r:
            if r["kind"] != "none":
                ctx.fail(f"{sp.key()} raised in a {r['kind']}-symmetric model: {r['error']}", r["case"])
            continue
        for which, kind in ((0, "TR"), (1, "I")):
            d = sp.decl[which]
            if d is None or d == "unsupported":
                continue
            T = rebuild_T(d)
            dev = max(rel_dev(T, a, b) for a, b in zip(r["v1"], r["v2"])) if r["v1"] else 0.0
            if r["kind"] == "none":
                comp.setdefault((sp.key(), kind), []).append(dev)
                continue
            if r["kind"] != kind:
                continue
            ctx.count(f"oracle.{kind}.{sp.kind}")
            if dev > 1e-9:
                mag = max(np.abs(v).max() for v in r["v1"])
                what = (f"{sp.key()}: value at -k differs from the declared {'transformTR' if which == 0 else 'transformInv'} "
                        f"{d} of the value at k in a {kind}-symmetric model: relative deviation {dev:.3e} (|value| = {mag:.3e})")
                worst = max(range(len(r["v1"])), key=lambda i: rel_dev(T, r["v1"][i], r["v2"][i]))
                ctx.fail(what, dict(r["case"], declared=d, value_k=r["v1"][worst], value_minus_k=r["v2"][worst],
                                    expected_minus_k=apply_T(T, r["v1"][worst])), kf=known_class(sp, which))
    return comp


def oracle(ctx, scale):
    st = getattr(ctx, "_c08", None)
    if st is None:
        with quiet():
            specs, parity_rows, unknown, notes, calcs = enumerate_specs(ctx, ctx.tier == "thorough")
        st = ctx._c08 = dict(specs=specs, parity_rows=parity_rows, calcs=calcs)
    thorough = ctx.tier == "thorough"
    specs = select_specs(st["specs"], thorough or scale > 1)
    rs = np.random.RandomState(ctx.rng.getrandbits(31))
    recs = []
    if scale == 1 and "recs" in st:
        recs = st.pop("recs")          # the raw real-code evaluations made for the correspondence are reused once
    # fresh symmetric models (quick: only when nothing can be reused), and the asymmetric companion for non-vacuity
    nm = (0 if (recs and not thorough) else 1) if scale == 1 else 3
    nm = ctx.n(nm, 3) if scale == 1 else nm
    if nm:
        recs = recs + measure(ctx, rs, specs, nmodels=nm, nk=ctx.n(1, 2), nw_choices=[3, 4, 5], with_companion=False)
    if scale == 1:
        recs = recs + measure(ctx, rs, specs, nmodels=1, nk=1, nw_choices=[4], kinds=["none"])
    comp = check_records(ctx, recs)
    # bookkeeping / non-vacuity
    trivial = {key for key, devs in comp.items() if max(devs) < 1e-3}
    nontrivial_devs = [max(devs) for key, devs in comp.items() if key not in trivial]
    for r in recs:
        if "error" in r or r["kind"] == "none":
            continue
        sp = r["sp"]
        kind = r["kind"]
        nt = (sp.key(), kind) not in trivial
        ctx.case(signature=(sp.key(), kind, r["case"]["model_seed"]), nontrivial=nt)
    if nontrivial_devs:
        ctx.note(f"non-vacuity: in the asymmetric companion models the same comparison fails for "
                 f"{len(nontrivial_devs)} (formula, symmetry) pairs with relative deviation min {min(nontrivial_devs):.2e}, "
                 f"median {float(np.median(nontrivial_devs)):.2e}; {len(trivial)} pairs are symmetric in every model "
                 f"(constants such as Identity / Formula_dyn_ident, or traces that vanish identically): "
                 f"{sorted({k for k, _ in trivial})[:12]}")
    ctx.sample(dict(example_case=recs[0]["case"] if recs else None))
    calc_oracle(ctx, rs, st["calcs"], scale)
    fingerprints(ctx)


def dataK_cell(s, k, dcell=0.25):
    """Data_K for one k-point WITH its parallelepiped (needed by the tetrahedron weights); the cell is centred at k, so
       the cells of k and -k are mapped onto each other by k -> -k"""
    from wannierberri.grid import Grid
    from wannierberri.grid.Kpoint import KpointBZparallel
    from wannierberri.data_K import Data_K_R
    with quiet():
        kp = KpointBZparallel(K=np.array(k, dtype=float), dK=np.ones(3) * dcell, NKFFT=np.ones(3, dtype=int), factor=1.,
                              pointgroup=None)
        return Data_K_R(s, grid=Grid(system=s, NK=1, NKFFT=1), dK=np.array(k, dtype=float), Kpoint=kp)


def calculator_variants(calcs, thorough, rs):
    """every option that changes how the RESULT object of a calculator is constructed:
       static: k_resolved x tetra;  tabulators: default / ibands given;  dynamic (incl. SDCT terms): smearing type, kBT"""
    out = []
    ef = np.linspace(-0.5, 0.5, 5)
    om = np.linspace(0.1, 1.0, 3)
    for name, cls, c in calcs["static"]:
        combos = [dict(tetra=t, k_resolved=kr) for t in (False, True) for kr in (False, True)]
        for kw in combos:
            out.append(("static", name, cls, dict(Efermi=ef, fder=0, **kw) if name == "_DOS" else dict(Efermi=ef, **kw), kw))
    for name, cls, c in calcs["tab"]:
        combos = [dict(), dict(ibands=[0, 1])]
        if not thorough:
            combos = [combos[int(rs.randint(2))]]
        for kw in combos:
            out.append(("tab", name, cls, dict(kw), kw))
    for name, cls, c, ckw in calcs["dyn"]:
        combos = [dict(), dict(smr_type="Gaussian"), dict(kBT=0.2)]
        if not thorough:
            combos = [combos[int(rs.randint(3))]]
        for kw in combos:
            full = dict(ckw)
            full.update(kw)
            out.append(("dyn", name, cls, full, kw))
    return out


def result_sites(ctx):
    """construction sites of result objects in the calculators (ast of the live source): which formula attribute is
       passed to which transform keyword"""
    from wannierberri.calculators import static, dynamic, tabulate
    sites = []
    for mod, cname in ((static, "StaticCalculator"), (dynamic, "DynamicCalculator"), (tabulate, "Tabulator")):
        cls = getattr(mod, cname)
        try:
            tree = ast.parse(textwrap.dedent(inspect.getsource(cls.__call__)))
        except Exception as e:  # noqa
            ctx.note(f"cannot read {cname}.__call__: {e}")
            continue
        for node in ast.walk(tree):
            if isinstance(node, ast.Call) and getattr(node.func, "id", "") in ("K__Result", "EnergyResult", "KBandResult"):
                kws = {k.arg: ast.unparse(k.value) for k in node.keywords if k.arg in ("transformTR", "transformInv")}
                sites.append((cname, node.func.id, kws))
                for kw, val in kws.items():
                    if val not in (f"formula.{kw}", kw):
                        ctx.mismatch(f"{cname}.__call__ constructs {node.func.id} with {kw}={val} (expected formula.{kw} "
                                     f"or the calculator-level override `{kw}`)", dict(site=cname, result=node.func.id, keywords=kws))
                if set(kws) != {"transformTR", "transformInv"}:
                    ctx.mismatch(f"{cname}.__call__ constructs {node.func.id} without both transform keywords: {kws}",
                                 dict(site=cname, result=node.func.id, keywords=kws))
    ctx.count("result_sites", len(sites))
    ctx.note("result construction sites: " + "; ".join(f"{c}->{r}({', '.join(f'{k}={v}' for k, v in sorted(kw.items()))})" for c, r, kw in sites))


def calc_oracle(ctx, rs, calcs, scale):
    """the same property one level up: the RESULTS of the calculators, for every option that changes how the result
       object is built (k_resolved, tetra, ibands, smearing).  Two checks per (calculator, variant):
       (i) the transforms declared by the result are those of the formula (or the calculator-level override);
       (ii) result(-k) = result's own transform applied to result(k) in a TR- resp. inversion-symmetric model"""
    thorough = ctx.tier == "thorough" or scale > 1
    variants = calculator_variants(calcs, thorough, rs)
    models = {}
    unsupported = set()

    def model(kind):
        if kind not in models:
            mseed = int(rs.randint(0, 2 ** 31 - 1))
            r1 = np.random.RandomState(mseed)
            nw = int(r1.choice([3, 4]))
            with quiet():
                s = build_model(r1, kind, nw)
            k = good_k(r1, s)
            # one Data_K per k-point shared by all calculators, as in a real run
            models[kind] = (s, k, mseed, nw, dataK_cell(s, k), dataK_cell(s, -k))
        return models[kind]

    for rep in range(1 if scale == 1 else 2):
        models.clear()
        for grp, name, cls, ckw, var in variants:
            kinds = ("TR", "I") if thorough else (("TR", "I")[int(rs.randint(2))],)
            try:
                with quiet():
                    c = cls(**ckw)
            except Exception as e:  # noqa
                ctx.note(f"calculator {grp}.{name}({var}) cannot be constructed: {type(e).__name__}: {str(e)[:100]}")
                continue
            for kind in kinds:
                s, k, mseed, nw, dk1, dk2 = model(kind)
                case = dict(calculator=f"{grp}.{name}", options=var, model=kind, model_seed=mseed, nw_choices=[3, 4],
                            num_wann=nw, k=k.tolist())
                try:
                    with quiet():
                        r1, r2 = c(dk1), c(dk2)
                except NotImplementedError:
                    continue
                except Exception as e:  # noqa
                    from wannierberri.calculators import static as _st
                    if grp == "static" and var.get("k_resolved") and type(c).__call__ is not _st.StaticCalculator.__call__:
                        # calculators that post-process `res.data` in their own __call__ do not support k_resolved=True
                        # (K__Result.data has no setter / different axis count): outside C08, reported as a note
                        unsupported.add(name)
                        continue
                    ctx.fail(f"calculator {grp}.{name}({var}) raised in a {kind}-symmetric model: {type(e).__name__}: {str(e)[:200]}", case)
                    continue
                if not hasattr(r1, "data"):
                    continue
                # (i) declared transforms of the result = those of the formula / the calculator override
                try:
                    with quiet():
                        f = c.Formula(dk1, **getattr(c, "kwargs_formula", {}))
                    for attr in ("transformTR", "transformInv"):
                        want = getattr(c, attr) if (grp == "dyn" and hasattr(c, attr)) else getattr(f, attr, None)
                        got = getattr(r1, attr, None)
                        if tdecl(want) != tdecl(got):
                            kf = None
                            ctx.fail(f"calculator {grp}.{name}({var}): the {type(r1).__name__} declares {attr} = {tdecl(got)} "
                                     f"but the formula {type(f).__name__} declares {tdecl(want)}", dict(case, attribute=attr), kf=kf)
                    ctx.count(f"oracle.calc.declared.{grp}")
                except Exception as e:  # noqa
                    ctx.note(f"cannot compare the declarations of {grp}.{name}: {type(e).__name__}: {str(e)[:80]}")
                # (ii) numeric parity through the result's own transform
                T = getattr(r1, "transformTR" if kind == "TR" else "transformInv", None)
                if T is None:
                    continue
                d1, d2 = np.array(r1.data), np.array(r2.data)
                if d1.shape != d2.shape:
                    ctx.fail(f"calculator {grp}.{name}({var}): shapes differ at k and -k", case)
                    continue
                w = T(np.array(d1, dtype=complex).copy())
                scale_v = max(1e-300, np.abs(d1).max(), np.abs(d2).max())
                dev = float(np.abs(w - d2).max() / scale_v) if scale_v > 1e-250 else 0.0
                ctx.case(signature=("calc", grp, name, repr(sorted(var.items())), kind, mseed), nontrivial=scale_v > 1e-12)
                ctx.count(f"oracle.calc.{grp}.{kind}" + ("".join(f".{k_}" for k_, v_ in sorted(var.items()) if v_ is True)))
                if dev > 1e-7:
                    kf = KF_SDCT if (name == "SDCT_asym_surf_II" and kind == "TR") else None
                    ctx.fail(f"calculator {grp}.{name}({var}): result at -k differs from the result's declared "
                             f"{'transformTR' if kind == 'TR' else 'transformInv'} ({T}) of the result at k in a "
                             f"{kind}-symmetric model: relative deviation {dev:.3e}", dict(case, max_abs=scale_v), kf=kf)
    if unsupported:
        ctx.note("k_resolved=True raises for calculators that post-process res.data in their own __call__ (outside C08): "
                 + ", ".join(sorted(unsupported)))
    result_sites(ctx)


# ---------------------------------------------------------------------------------------------
# fingerprints of the transcribed sources (a changed body is reported as a note: the transcription may be stale)

def _fp(obj):
    try:
        src = textwrap.dedent(inspect.getsource(obj))
        return hashlib.sha1(ast.dump(ast.parse(src)).encode()).hexdigest()[:12]
    except Exception:  # noqa
        return "unavailable"


def current_fingerprints():
    from wannierberri.formula import covariant, basic, elementary, sdct as fsdct, formula as fbase
    from wannierberri.calculators import dynamic
    from wannierberri.data_K import data_K, data_K_R
    from wannierberri.symmetry import point_symmetry
    fps = {}
    for mod in (covariant, basic, elementary, fsdct, fbase):
        for name, cls in inspect.getmembers(mod, inspect.isclass):
            if cls.__module__ == mod.__name__:
                fps[f"{mod.__name__.split('.')[-1]}.{name}"] = _fp(cls)
    for name, cls in inspect.getmembers(dynamic, inspect.isclass):
        if cls.__module__ == dynamic.__name__ and is_formula_class(cls):
            fps[f"dynamic.{name}"] = _fp(cls)
    for fn in ("get_transform_TR", "get_transform_Inv"):
        fps[f"data_K.{fn}"] = _fp(getattr(data_K, fn))
    for meth in ("covariant", "V_covariant", "D_H", "get_A_H", "get_E1", "get_O1", "get_M1", "get_E2", "get_Bln", "delE_K", "dEig_inv"):
        m = inspect.getattr_static(data_K.Data_K, meth)
        m = getattr(m, "func", None) or getattr(m, "fget", None) or getattr(m, "__wrapped__", None) or m
        fps[f"Data_K.{meth}"] = _fp(m)
    for meth in ("Xbar", "rotAA", "rotAAab", "CCab_antisym_R", "_R_to_k_H"):
        fps[f"Data_K_R.{meth}"] = _fp(getattr(data_K_R.Data_K_R, meth))
    fps["Transform"] = _fp(point_symmetry.Transform)
    return fps


# BEGIN-FINGERPRINTS (regenerated by `python -m harness.props.c08`)
FINGERPRINTS = {
 "Data_K.D_H": "bd560f55c592",
 "Data_K.V_covariant": "7092a1d3fa58",
 "Data_K.covariant": "40496c825902",
 "Data_K.dEig_inv": "e8107d22656d",
 "Data_K.delE_K": "84509e160ae6",
 "Data_K.get_A_H": "cdd180d71956",
 "Data_K.get_Bln": "5cd844cb413a",
 "Data_K.get_E1": "fba5cb4784a0",
 "Data_K.get_E2": "d585e90836e1",
 "Data_K.get_M1": "a45b6251199d",
 "Data_K.get_O1": "fab3940f5e06",
 "Data_K_R.CCab_antisym_R": "3ea823b29467",
 "Data_K_R.Xbar": "7a3c9f9e87ff",
 "Data_K_R._R_to_k_H": "ea777fcdd6c6",
 "Data_K_R.rotAA": "fc9273a88772",
 "Data_K_R.rotAAab": "899dd9592b3c",
 "Transform": "e03ba229524e",
 "basic.Der_morb": "38a7830610eb",
 "basic.FormulaAntiSymmetric": "f814e417419a",
 "basic.FormulaSymmetric": "8e67dd8bedb3",
 "basic.tildeFab": "f1ae3f71636f",
 "basic.tildeFab_d": "c2e930169b5e",
 "basic.tildeFc": "88b0b1bfe86b",
 "basic.tildeFc_d": "71949f006e31",
 "basic.tildeHGab": "d72cf75d1878",
 "basic.tildeHGab_d": "897e3d78098a",
 "basic.tildeHGc": "1f33e21e37fc",
 "basic.tildeHGc_d": "82ec11e8a50b",
 "basic.tildeHab": "f00606e5aa2e",
 "basic.tildeHab_d": "ce4a6780294a",
 "covariant.Der2A": "970d3b428a38",
 "covariant.Der2B": "6565566c5ac5",
 "covariant.Der2H": "f428ae9160af",
 "covariant.Der2Morb": "087fa8d3d8a4",
 "covariant.Der2Morb_H": "145a6cdf33c7",
 "covariant.Der2O": "d2aa20125e86",
 "covariant.Der2Omega": "3e27e6ed631b",
 "covariant.Der2Spin": "7176fbcfe032",
 "covariant.Der2morb": "31d6796bda43",
 "covariant.Der3E": "b6ea877017a4",
 "covariant.DerMorb": "cdab5bfcb720",
 "covariant.DerMorb_H": "c571bf74d441",
 "covariant.DerOmega": "222ef35f5db7",
 "covariant.DerQuantumMetric_ab_d": "7a894d0f7870",
 "covariant.DerSpin": "2f04de2932c4",
 "covariant.Dermorb": "8193f7a2b01c",
 "covariant.Hamiltonian": "a8bd64f65674",
 "covariant.Identity": "d0da19b66535",
 "covariant.MassMass": "5f3df734d01c",
 "covariant.MassVel": "051417819eb8",
 "covariant.Morb_H": "facd91aaa05a",
 "covariant.Morb_Hpm": "4d0e563bbf5b",
 "covariant.NLDrude_Z_orb_Hplus": "6a5ced046d52",
 "covariant.NLDrude_Z_orb_Omega": "a015bec26533",
 "covariant.NLDrude_Z_spin": "f3c4cfd109c4",
 "covariant.Omega": "751a1efb6cdf",
 "covariant.OmegaHplus": "4d86cc0617e4",
 "covariant.OmegaOmega": "3881e7bdd800",
 "covariant.OmegaS": "f52879f20022",
 "covariant.QuantumMetric_ab": "303b00170129",
 "covariant.Spin": "4be6d0192d0d",
 "covariant.SpinOmega": "a2baae2d6e43",
 "covariant.SpinVelocity": "92566d221416",
 "covariant.VelDQM": "ac32c881e4f7",
 "covariant.VelHplus": "b2748ec87515",
 "covariant.VelMassVel": "fe6ede33489c",
 "covariant.VelOmega": "fa74938be439",
 "covariant.VelSpin": "e8db7ed58fc6",
 "covariant.VelVel": "335388e9a3b1",
 "covariant.VelVelVel": "b6581c412e9e",
 "covariant.Velocity": "837e2891bbb7",
 "covariant.emcha_surf": "8da796a1a514",
 "covariant.morb": "0d5f9d009e0a",
 "data_K.get_transform_Inv": "270a7896a444",
 "data_K.get_transform_TR": "3ffa89fd5af2",
 "dynamic.Formula_OptCond": "ec149897f8fe",
 "dynamic.Formula_SHC": "676056274479",
 "dynamic.Formula_dyn_ident": "98c583a42d32",
 "dynamic.InjectionCurrentFormula": "0e3e684831a2",
 "dynamic.ShiftCurrentFormula": "17f3df7dc0bc",
 "elementary.DEinv_ln": "af4c07a8e3bd",
 "elementary.Dcov": "3dfdede2c0b1",
 "elementary.Der2Dcov": "dd9801eddf82",
 "elementary.DerDcov": "3ccb4ff47fff",
 "elementary.DerWln": "b06f632b39c6",
 "elementary.Eavln": "7257cc555de8",
 "elementary.InvMass": "4b4200b9f22f",
 "formula.DeltaProduct": "2c8720e6f61b",
 "formula.Formula": "5bdecde8c6d9",
 "formula.FormulaProduct": "a41277907a13",
 "formula.FormulaSum": "6da8cd3bf58d",
 "formula.Formula_ln": "e3434f31b93f",
 "formula.Matrix_GenDer_ln": "f4985efa52a5",
 "formula.Matrix_ln": "f8990cd05482",
 "sdct.Formula_SDCT": "0eeba3baaf2e",
 "sdct.Formula_SDCT_sea_I": "6313ee553c9a",
 "sdct.Formula_SDCT_sea_II": "662ffd71bf16",
 "sdct.Formula_SDCT_surf_I": "c147d12b4347",
 "sdct.Formula_SDCT_surf_II": "d0eed3f6a59a"
}
# END-FINGERPRINTS


def fingerprints(ctx):
    old = FINGERPRINTS
    new = current_fingerprints()
    changed = sorted(k for k in set(old) | set(new) if old.get(k) != new.get(k))
    if changed:
        ctx.note("source changed since the structure terms were transcribed (Lean terms may be stale; the oracle "
                 "results above are authoritative): " + ", ".join(changed[:30]))
    ctx.count("fingerprints.unchanged", len(new) - len([c for c in changed if c in new]))
    ctx.count("fingerprints.changed", len(changed))


def reseed(ctx, case):
    """a replay re-creates the random stream of the recorded run"""
    import random
    seed = int(case.get("seed", ctx.seed))
    ctx.seed = seed
    ctx.rng = random.Random(seed * 1000003 + int(hashlib.sha1(ctx.pid.encode()).hexdigest()[:6], 16))
    if case.get("tier") in ("quick", "thorough"):
        ctx.tier = case["tier"]


def replay(ctx, case):
    """re-run the recorded failing cases: the model is rebuilt from (symmetry kind, model_seed), the formula is
       re-instantiated from the live code and evaluated at the recorded k and -k"""
    with quiet():
        specs, parity_rows, unknown, notes, calcs = enumerate_specs(ctx, True)
    done = 0
    for fl in case.get("failures", []):
        c = fl.get("case", {})
        if "model_seed" not in c or "label" not in c:
            continue
        todo = [sp for sp in specs if sp.label == c["label"] and sp.kwargs == c["kwargs"]]
        recs = measure_one(todo[:1], c["model"], int(c["model_seed"]), c["nw_choices"])
        before = len(ctx.failures)
        check_records(ctx, recs)
        done += 1
        for r in recs:
            print(f"replayed {r['sp'].key()} in the {r['kind']}-symmetric model seed {c['model_seed']} at k = {r['case']['k']}: "
                  f"{'STILL FAILS' if len(ctx.failures) > before else 'now holds'}")
            if "v1" in r and r["v1"]:
                print("  value(k)  =", np.round(np.array(r["v1"][0]).ravel()[:6], 6))
                print("  value(-k) =", np.round(np.array(r["v2"][0]).ravel()[:6], 6))
    if not done:
        print("no formula-level failure recorded in this replay file; re-running the whole check with the recorded seed")
        reseed(ctx, case)
        tables(ctx)
        corr(ctx)
        oracle(ctx, 1)


if __name__ == "__main__":
    # maintenance: regenerate lean/WB/Lemmas/C08Snapshot.lean and corpus/C08/fingerprints.json from the current /repo
    import json
    import sys

    class _C:
        tier = "thorough"

        def note(self, s):
            print("note:", s)
    with quiet():
        specs, parity_rows, unknown, notes, calcs = enumerate_specs(_C(), True)
    txt, rows, prow, skipped = lean_tables(specs, parity_rows, "snapshotTable", "snapshotParity")
    with open(os.path.join(VERIF, "lean", "WB", "Lemmas", "C08Snapshot.lean"), "w") as f:
        f.write("/-\n  C08 — snapshot of the declared-transform table extracted from /repo (generated by\n"
                "  `python -m harness.props.c08`; the live table is regenerated and re-checked on every run).\n"
                "  Rows of the registered known findings are excluded: " + "; ".join(skipped) + "\n-/\n"
                "import WB.Model.C08\nnamespace WB.C08\n\n" + txt +
                "\ntheorem snapshotTable_ok : checkTable snapshotTable = true := by decide +kernel\n"
                "theorem snapshotParity_ok : checkParity snapshotParity = true := by decide +kernel\n"
                "\nend WB.C08\n")
    me = open(__file__).read()
    a, b = me.index("# BEGIN-FINGERPRINTS"), me.index("# END-FINGERPRINTS")
    me = (me[:a] + "# BEGIN-FINGERPRINTS (regenerated by `python -m harness.props.c08`)\nFINGERPRINTS = "
          + json.dumps(current_fingerprints(), indent=1, sort_keys=True) + "\n" + me[b:])
    open(__file__, "w").write(me)
    print(len(rows), "rows,", len(prow), "parity rows; unknown:", unknown, "; notes:", notes, "; broken:", calcs["broken"])
    sys.exit(0)
