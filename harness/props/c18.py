"""C18 - system files round-trip (npz directory, _tb.dat, _hr.dat + Wannier-centre file, point group)."""
import glob as _glob
import os
import re
import shutil
from fractions import Fraction as Fr

import numpy as np

from ..common import F, rat, rats, intss, quiet

PID = "C18"
CLAIM = dict(
    design="3/C18",
    technique="Lean 4 proof over token-level models of the writers/readers (loop nests, index arithmetic, Ndegen "
              "header chunking and division, convention II<->I diagonal shift, even/odd row split, directory "
              "listing order, group closure) + exact differential correspondence against the real files + exact "
              "property oracle on the real code",
    text="Theorems, for every num_wann (odd included), every R-vector list and an arbitrary print-parse map rho: "
         "get_system_hr(write_hr_file(s)) and get_system_tb(write_tb_file(s)) return num_wann, the R-vectors in "
         "order, the lattice and, at every (iR,m,n[,c]), exactly the printed value of the original element "
         "(tb: also the centres and the AA diagonal through the convention II<->I switch, for each option "
         "combination); the Ndegen header written 15 per line is read back for every length and the division by "
         "Ndegen inverts Wannier90's storage for any non-zero degeneracies; read_WCC(write_WCC(c)) = c for every "
         "number of rows, while the pre-repair split n//2 fails for every odd n; load_npz(to_npz(s)) rebuilds the "
         "R-vector object from the saved lattice/centres/iRvec and every property and matrix for EVERY directory "
         "listing order; PointSymmetry(**as_dict()) is the identity and re-closing a closed group list returns "
         "the same list in the same order.  Model and code are run on the same inputs and compared exactly; the "
         "oracle checks on the real code that every reloaded array equals the printed value of the original, "
         "bit for bit, and that bands and Berry curvature agree.",
    note="Trusted: Lean kernel + Mathlib; the harness; Python's float formatting/parsing (modelled exactly at Rat "
         "for %15.8e and checked on every written token), np.savez/np.load, np.savetxt, the file system.",
)
TRUSTED = [
    "modelled: write_hr_file, get_system_hr (text part), write_WCC_WT_format, read_WCC_WT_format, write_tb_file, "
    "get_system_tb (all three option flags), to_npz/load_npz on the file-name level, PointSymmetry.as_dict/__init__, "
    "the generator reading (duplicates dropped) and closure loop of PointGroup.__init__",
    "the dropping-writer model dropZeroHam (counterexample dropping_zero_ham_loses_AA) is a labelled non-code variant; that "
    "the real writer keeps R-vectors with vanishing blocks is checked by the token correspondence and the oracle on systems "
    "with zero blocks",
    "not modelled (oracle only): np.savez/np.load of the arrays, Rvectors construction, do_at_end_of_init, evaluate_k",
    "Python float formatting '%15.8e' / repr and float() parsing: modelled as rho / identity; the Lean driver's exact "
    "implementation of %15.8e is compared with Python on every token of every written file",
]
RULE = ("random Hermitian System_R objects built from the repository's own classes: num_wann 1-7 (odd and even), "
        "1-20 R-vectors in random order (R=0 anywhere), random lattices, centres with components below the 1e-7 "
        "clip, with/without AA (and BB/CC/SS for npz), whole R blocks of single matrices identically zero (Ham(R)=0 with AA(R)!=0 and vice versa), point groups from generator names; files with Ndegen != 1; "
        "all reader/writer option combinations; non-trivial = num_wann odd or >= 2 R-vectors; "
        "distinct = distinct (format, sizes, options, seed)")

INT_RE = re.compile(r"[-+]?\d+$")


# ------------------------------------------------------------------------------------------------
# building systems from the repository's own classes

def make_system(nw, Rs, L, wcc, mats):
    from wannierberri.system.system_R import System_R
    from wannierberri.fourier.rvectors import Rvectors
    with quiet():
        s = System_R(name="verif")
        s.set_real_lattice(np.array(L, dtype=float))
        s.num_wann = nw
        s.wannier_centers_cart = np.array(wcc, dtype=float)
        s.clear_cached_wcc()
        s.rvec = Rvectors(lattice=s.real_lattice, iRvec=np.array(Rs, dtype=int), shifts_left_red=s.wannier_centers_red)
        for k, v in mats.items():
            s.set_R_mat(k, np.array(v, dtype=complex))
        s.do_at_end_of_init()
    return s


def rand_Rs(rng, nR):
    """nR distinct R-vectors containing 0, closed under R -> -R when possible, in random order"""
    Rs = {(0, 0, 0)}
    while len(Rs) < nR:
        R = tuple(rng.randint(-3, 3) for _ in range(3))
        Rs.add(R)
        if len(Rs) < nR:
            Rs.add(tuple(-x for x in R))
    Rs = list(Rs)
    rng.shuffle(Rs)
    return Rs


def rand_mats(rng, nprng, nw, Rs, keys, value, zero_blocks=0.0):
    """Hermitian matrices X(-R) = X(R)^dagger where -R is present; `value(shape)` draws the real numbers"""
    idx = {R: i for i, R in enumerate(Rs)}
    out = {}
    for key in keys:
        ncart = {"Ham": 0, "AA": 1, "BB": 1, "CC": 1, "SS": 1}[key]
        shape = (len(Rs), nw, nw) + (3,) * ncart
        X = value(shape) + 1j * value(shape)
        Y = np.zeros(shape, dtype=complex)
        for R, i in idx.items():
            mR = tuple(-x for x in R)
            if mR in idx:
                Y[i] = 0.5 * (X[i] + np.conj(np.swapaxes(X[idx[mR]], 0, 1)))
            else:
                Y[i] = X[i]
        if key == "AA":
            Y[idx[(0, 0, 0)], np.arange(nw), np.arange(nw)] = 0
        out[key] = Y
    if zero_blocks:
        # structured sparsity: whole R blocks of single matrices vanish identically (short-ranged hopping with
        # longer-ranged position elements, R lists merged from several matrices, ...), +-R together
        for key in keys:
            for R, i in idx.items():
                if R != (0, 0, 0) and rng.random() < zero_blocks:
                    out[key][i] = 0
                    mR = tuple(-x for x in R)
                    if mR in idx:
                        out[key][idx[mR]] = 0
    return out


def rand_lattice(nprng, kind=None):
    kind = kind or ["cubic", "ortho", "tric", "hex"][int(nprng.integers(4))]
    if kind == "cubic":
        return np.eye(3) * nprng.uniform(0.8, 1.5)
    if kind == "ortho":
        return np.diag(nprng.uniform(0.8, 1.6, 3))
    if kind == "hex":
        a, c = nprng.uniform(0.9, 1.4, 2)
        return np.array([[a, 0, 0], [-a / 2, a * np.sqrt(3) / 2, 0], [0, 0, c]])
    while True:
        L = np.eye(3) + nprng.uniform(-0.35, 0.35, (3, 3))
        if np.linalg.det(L) > 0.4:
            return L


def rand_wcc(rng, nprng, nw):
    w = nprng.uniform(-1.2, 1.2, (nw, 3))
    for i in range(nw):
        for c in range(3):
            r = rng.random()
            if r < 0.08:
                w[i, c] = 0.0
            elif r < 0.16:
                w[i, c] = rng.choice([3e-8, -6e-8, 9.99e-8, 1e-7, -1e-7])   # at / below the 1e-7 clip of the WCC file
            elif r < 0.22:
                w[i, c] = rng.choice([1.0000001e-7, -2e-7, 1.5e-5])
    return w


def dyadic(nprng, bits=10, span=4):
    """values k/2^bits with few significant decimal digits -> printed exactly by %15.8e"""
    def value(shape):
        return nprng.integers(-span * 2 ** 6, span * 2 ** 6, shape) / 64.0
    return value


def uniform(nprng, scale=1.0):
    def value(shape):
        e = nprng.integers(-3, 2, shape)
        return nprng.uniform(-1, 1, shape) * scale * 10.0 ** e
    return value


# ------------------------------------------------------------------------------------------------
# tokens

def tokenize(path):
    """real file -> list of lines of ('i', int) / ('v', Fraction); the first (comment) line becomes []"""
    out = []
    with open(path) as f:
        for n, line in enumerate(f.read().split("\n")[:-1]):
            if n == 0:
                out.append([])
                continue
            out.append([("i", int(t)) if INT_RE.match(t) else ("v", float(t)) for t in line.split()])
    return out


def parse_model_file(s):
    if s == "_":
        return []
    out = []
    for line in s.split(";"):
        if line == "_":
            out.append([])
        else:
            out.append([("i", int(t[1:])) if t.startswith("i") else ("v", Fr(t)) for t in line.split(",")])   # exact
    return out


def show_file(lines):
    def tok(t):
        return f"i{t[1]}" if t[0] == "i" else rat(t[1])
    return ";".join((",".join(tok(t) for t in l) if l else "_") for l in lines) if lines else "_"


def same_tokens(a, b):
    """a = model tokens (exact rationals), b = tokens of the real file.  Integers must agree as integers.  A value
    token of the real file is a decimal string s; the model's exact value v must satisfy float(v) == float(s):
    for %15.8e the model value IS the printed decimal, for repr / %.18e it is the exact value of the double that
    the string denotes."""
    if len(a) != len(b):
        return f"{len(a)} lines vs {len(b)}"
    for n, (la, lb) in enumerate(zip(a, b)):
        if len(la) != len(lb):
            return f"line {n}: {len(la)} tokens vs {len(lb)}"
        for ta, tb in zip(la, lb):
            if ta[0] != tb[0] or (ta[1] != tb[1] if ta[0] == "i" else float(ta[1]) != float(tb[1])):
                return f"line {n}: model {ta} vs file {tb}"
    return None


def cflat(X):
    """complex array -> flat list of exact rationals re,im in C order"""
    X = np.asarray(X, dtype=complex).reshape(-1)
    out = []
    for z in X:
        out.append(F(z.real))
        out.append(F(z.imag))
    return out


def parse_cflat(s, shape):
    from ..common import parse_rats
    v = parse_rats(s)
    return v


def rho(x):
    """float(f'{x:15.8e}') - independent reference for 'printed value'"""
    return float(f"{x:15.8e}")


def rho_arr(X):
    X = np.asarray(X)
    if np.iscomplexobj(X):
        return np.vectorize(rho)(X.real) + 1j * np.vectorize(rho)(X.imag)
    return np.vectorize(rho)(X)


# ------------------------------------------------------------------------------------------------
# component correspondence

def corr(ctx):
    from wannierberri.system.system_tb import write_tb_file, get_system_tb
    from wannierberri.system.system_hr import (write_hr_file, get_system_hr, write_WCC_WT_format,
                                               read_WCC_WT_format)
    rng = ctx.rng
    nprng = ctx.nprng()
    work = os.path.join(ctx.work, "corr")
    os.makedirs(work, exist_ok=True)
    lines, checks = [], []   # checks[i](model_output) -> None or message

    def add(line, check, what, case):
        lines.append(line)
        checks.append((check, what, case))

    thr = F(1e-7)
    N = ctx.n(14, 80)
    for it in range(N):
        nw = rng.choice([1, 1, 2, 3, 3, 4, 5])
        nR = rng.choice([1, 2, 3, 5, 15, 16, 17] if it % 5 == 0 else [1, 2, 3, 4])
        if nw >= 4:
            nR = min(nR, 3)
        Rs = rand_Rs(rng, nR)
        L = rand_lattice(nprng)
        wcc = rand_wcc(rng, nprng, nw)
        exact = rng.random() < 0.5
        value = dyadic(nprng) if exact else uniform(nprng)
        hasAA = rng.random() < 0.7
        mats = rand_mats(rng, nprng, nw, Rs, ["Ham", "AA"] if hasAA else ["Ham"], value,
                         zero_blocks=rng.choice([0.0, 0.0, 0.4]))
        s = make_system(nw, Rs, L, wcc, mats)
        seed = os.path.join(work, f"c{it}")
        case = dict(num_wann=nw, iRvec=Rs, exact_values=exact, hasAA=hasAA)
        ctx.count(f"corr.num_wann={nw}")
        ctx.count(f"corr.nR={nR}")

        # ---- write_hr_file vs model writer (every token) + write_WCC_WT_format
        with ctx.attempt("write_hr_file", case):
            with quiet():
                write_hr_file(s, seed)
            real = tokenize(seed + "_hr.dat")
            line = f"hrwrite e8 {nw} {intss(Rs)} {rats(cflat(mats['Ham']))}"
            add(line, (lambda out, real=real: same_tokens(parse_model_file(out), real)), "write_hr_file tokens", case)
            realw = [[("v", float(t)) for t in l.split()] for l in open(seed + "_wannier_centre_WT_format.dat").read().split("\n")[:-1]]
            line = f"wccwrite {rat(thr)} " + ";".join(rats(r) for r in wcc)
            add(line, (lambda out, realw=realw: same_tokens(parse_model_file(out), realw)), "write_WCC_WT_format tokens", case)

        # ---- get_system_hr vs model reader on a file with Ndegen != 1 (written by the harness in W90 layout)
        nd = [rng.choice([1, 2, 4, 8] if exact else [1, 2, 3, 5, 7]) for _ in Rs]
        H = mats["Ham"]
        txt = ["hr file with degeneracies", str(nw), str(len(Rs))]
        for i in range(0, len(Rs), 15):
            txt.append("  ".join(f"{x:5d}" for x in nd[i:i + 15]))
        toks = [[], [("i", nw)], [("i", len(Rs))]] + [[("i", x) for x in nd[i:i + 15]] for i in range(0, len(Rs), 15)]
        for ir, R in enumerate(Rs):
            for n in range(nw):
                for m in range(nw):
                    re_, im_ = rho(H[ir, m, n].real * nd[ir]), rho(H[ir, m, n].imag * nd[ir])
                    txt.append(f"{R[0]:5d}{R[1]:5d}{R[2]:5d}{m + 1:5d}{n + 1:5d} {re_:15.8e} {im_:15.8e}")
                    toks.append([("i", R[0]), ("i", R[1]), ("i", R[2]), ("i", m + 1), ("i", n + 1),
                                 ("v", F(re_)), ("v", F(im_))])
        seed2 = seed + "_nd"
        open(seed2 + "_hr.dat", "w").write("\n".join(txt) + "\n")
        with ctx.attempt("get_system_hr (Ndegen != 1)", dict(case, Ndegen=nd)):
            with quiet():
                s2 = get_system_hr(seed2, wannier_centers_cart=wcc, real_lattice=L)
            got = (s2.num_wann, [tuple(int(x) for x in R) for R in s2.rvec.iRvec], np.array(s2.get_R_mat("Ham")))

            def chk(out, got=got, exact=exact, nR=len(Rs), nw=nw):
                a, b, c = out.split(" ")
                from ..common import parse_intss, parse_rats
                if int(a) != got[0]:
                    return f"num_wann model {a} code {got[0]}"
                if [tuple(r) for r in parse_intss(b)] != got[1]:
                    return f"iRvec model {b} code {got[1]}"
                v = parse_rats(c)
                X = got[2].reshape(-1)
                for j, z in enumerate(X):
                    for mv, cv in ((v[2 * j], z.real), (v[2 * j + 1], z.imag)):
                        if (F(cv) != mv) if exact else (abs(float(mv) - cv) > 1e-15 * abs(cv)):
                            return f"Ham element {j}: model {mv} code {cv!r}"
                return None
            add(f"hrread {show_file(toks)}", chk, "get_system_hr vs model reader", dict(case, Ndegen=nd))

        # ---- write_tb_file vs model writer, all flags
        useII = rng.random() < 0.7
        with ctx.attempt("write_tb_file", dict(case, use_convention_II=useII)):
            with quiet():
                write_tb_file(s, seed + "_tb.dat", use_convention_II=useII)
            real = tokenize(seed + "_tb.dat")
            aa = mats["AA"] if hasAA else np.zeros((0,))
            line = (f"tbwrite e8 {nw} {intss(Rs)} {rats(F(x) for x in np.array(L).reshape(-1))} "
                    f"{rats(F(x) for x in wcc.reshape(-1))} {rats(cflat(mats['Ham']))} "
                    f"{rats(cflat(aa)) if hasAA else '_'} {int(hasAA)} {int(useII)}")
            add(line, (lambda out, real=real: same_tokens(parse_model_file(out), real)), "write_tb_file tokens",
                dict(case, use_convention_II=useII))

        # ---- get_system_tb vs model reader on that file, all reader flags
        needAA = hasAA and rng.random() < 0.7
        convII = rng.random() < 0.6
        given = (not hasAA) or rng.random() < 0.4
        rcase = dict(case, use_convention_II=useII, berry=needAA, convention_II_to_I=convII, centres_given=given)
        with ctx.attempt("get_system_tb", rcase):
            with quiet():
                s3 = get_system_tb(seed + "_tb.dat", berry=needAA, convention_II_to_I=convII,
                                   wannier_centers_cart=(wcc.copy() if given else None))
            got = dict(nw=s3.num_wann, Rs=[tuple(int(x) for x in R) for R in s3.rvec.iRvec],
                       lat=np.array(s3.real_lattice), wcc=np.array(s3.wannier_centers_cart),
                       ham=np.array(s3.get_R_mat("Ham")), aa=(np.array(s3.get_R_mat("AA")) if needAA else None))

            def chk(out, got=got):
                from ..common import parse_intss, parse_rats
                a, b, c, d, e, f_ = out.split(" ")
                if int(a) != got["nw"]:
                    return "num_wann"
                if [tuple(r) for r in parse_intss(b)] != got["Rs"]:
                    return "iRvec"
                for name, ms, arr in (("lattice", c, got["lat"]), ("centres", d, got["wcc"])):
                    mv = parse_rats(ms)
                    for x, y in zip(mv, arr.reshape(-1)):
                        if abs(float(x) - y) > 4e-16 * max(abs(y), abs(float(x)), 1e-300) and abs(float(x) - y) > 1e-17:
                            return f"{name}: model {x} code {y!r}"
                for name, ms, arr in (("Ham", e, got["ham"]), ("AA", f_, got["aa"])):
                    if arr is None:
                        continue
                    mv = parse_rats(ms)
                    X = arr.reshape(-1)
                    if len(mv) != 2 * len(X):
                        return f"{name}: sizes {len(mv)} vs {2 * len(X)}"
                    for j, z in enumerate(X):
                        for x, y in ((mv[2 * j], z.real), (mv[2 * j + 1], z.imag)):
                            # the only inexact operation is the subtraction of the centre on the AA diagonal
                            if abs(float(x) - y) > 4e-16 * max(abs(y), 1.0):
                                return f"{name} element {j}: model {x} code {y!r}"
                return None
            line = (f"tbread {show_file(real)} {int(needAA)} {int(convII)} "
                    f"{rats(F(x) for x in wcc.reshape(-1)) if given else '_'}")
            add(line, chk, "get_system_tb vs model reader", rcase)

    # ---- read_WCC_WT_format for every small number of rows (the model also has the pre-repair reader)
    for n in list(range(1, 10)) + [rng.randint(10, 30)]:
        rows = rand_wcc(rng, nprng, n)
        seed = os.path.join(work, f"w{n}")
        with ctx.attempt("read_WCC_WT_format", dict(rows=n)):
            write_WCC_WT_format(seed, rows)
            got = read_WCC_WT_format(seed)
            f = [[("v", F(float(t))) for t in l.split()] for l in open(seed + "_wannier_centre_WT_format.dat").read().split("\n")[:-1]]
            want = ";".join(rats(r) for r in got)
            add(f"wccread new {show_file(f)}", (lambda out, want=want: None if out == want else f"model {out} code {want}"),
                "read_WCC_WT_format", dict(rows=n))
            ctx.count(f"corr.wcc_rows={'odd' if n % 2 else 'even'}")

    # ---- PointGroup closure loop: integer-matrix groups, element order
    from wannierberri.symmetry.point_symmetry import PointGroup
    gens_pool = ["C4z", "C2x", "C2y", "C2z", "Mx", "My", "Mz", "Inversion", "TimeReversal", "C4x", "C4y",
                 "TimeReversal*C2x", "C4z*Inversion"]
    for it in range(ctx.n(8, 30)):
        gens = rng.sample(gens_pool, rng.randint(0, 3))
        if gens and rng.random() < 0.4:
            gens = gens + [rng.choice(gens)]          # a generator listed twice is ignored when the list is read
            rng.shuffle(gens)
        with ctx.attempt("PointGroup closure", dict(generators=gens)):
            with quiet():
                pg = PointGroup(list(gens), real_lattice=np.eye(3))
                one = [PointGroup([g], real_lattice=np.eye(3)).symmetries[0] for g in gens]
            def enc(sym):
                M = np.rint(sym.R * (-1 if sym.Inv else 1)).astype(int)
                return [int(x) for x in M.reshape(-1)] + [int(bool(sym.TR))]
            g0 = [enc(x) for x in one] if gens else [[1, 0, 0, 0, 1, 0, 0, 0, 1, 0]]
            want = intss(enc(x) for x in pg.symmetries)
            add(f"closure {intss(g0)}", (lambda out, want=want: None if out == want else f"model {out} code {want}"),
                "PointGroup closure order", dict(generators=gens, size=pg.size))
            ctx.count(f"corr.group_size={pg.size}")

    npz_corr(ctx, add)
    out = ctx.lean(lines)
    for l, o, (check, what, case) in zip(lines, out, checks):
        ctx.case(signature=l[:2000], nontrivial=True)
        msg = check(o) if o != "bad-op" else "model rejected the line"
        if msg:
            ctx.mismatch(f"{what}: {msg}", dict(case, line=l[:600]))
    if lines:
        ctx.sample(dict(protocol_line=lines[0][:300], model=out[0][:300]))


def npz_corr(ctx, add):
    """file names written by to_npz = saveDir of the model; the model's loader on the real names in a shuffled order"""
    rng, nprng = ctx.rng, ctx.nprng()
    work = os.path.join(ctx.work, "npzc")
    for it in range(ctx.n(3, 10)):
        nw = rng.randint(1, 3)
        Rs = rand_Rs(rng, rng.randint(1, 4))
        keys = ["Ham"] + rng.sample(["AA", "BB", "CC", "SS"], rng.randint(0, 3))
        s = make_system(nw, Rs, rand_lattice(nprng), rand_wcc(rng, nprng, nw),
                        rand_mats(rng, nprng, nw, Rs, keys, uniform(nprng)))
        d = os.path.join(work, f"d{it}")
        with ctx.attempt("to_npz", dict(keys=keys)):
            with quiet():
                s.to_npz(d)
            names = sorted(os.path.splitext(x)[0] for x in os.listdir(d))
            props = list(s.essential_properties)
            add(f"npzsave {','.join(props)} {','.join(sorted(keys))}",
                (lambda out, names=names: None if sorted(out.split(",")) == names else f"model {sorted(out.split(','))} code {names}"),
                "to_npz file names", dict(keys=keys))
            listing = list(names)
            rng.shuffle(listing)
            ip = {n: i for i, n in enumerate(props)}
            want_rvec = f"{ip['real_lattice']},{ip['iRvec']},{ip['wannier_centers_cart']}"

            def chk(out, want_rvec=want_rvec, props=props, keys=sorted(keys)):
                rv, attrs, mats = out.split(" ")
                if rv != want_rvec:
                    return f"R-vector object built from {rv}, expected (lattice,iRvec,centres) = {want_rvec}"
                a = dict(x.split("=") for x in attrs.split(","))
                if a != {n: str(i) for i, n in enumerate(props) if n != "iRvec"}:
                    return f"attributes {a}"
                m = dict(x.split("=") for x in mats.split(","))
                if m != {k: str(1000 + i) for i, k in enumerate(keys)}:
                    return f"matrices {m}"
                return None
            add(f"npzload {','.join(props)} {','.join(sorted(keys))} {','.join(listing)}", chk,
                "model loader on the real file names, shuffled listing", dict(listing=listing))


def tables(ctx):
    """regenerated side condition of theorem npz_roundtrip: no property name of the live code starts with _XX_R_,
    and the three names the loader treats specially are essential properties"""
    from wannierberri.system.system_R import System_R
    with quiet():
        s = System_R(name="verif")
    names = list(s.essential_properties) + list(s.optional_properties)

    def cl(x):
        return "[" + ", ".join("'" + c + "'" for c in x) + "]"
    src = ("import WB.Model.C18\nopen WB.C18\n"
           f"def liveProps : List Name := [{', '.join(cl(n) for n in names)}]\n"
           "theorem live_no_prefix : (liveProps.all (fun p => !(xxPrefix.isPrefixOf p))) = true := by decide +kernel\n"
           "theorem live_special : (liveProps.contains nLat && liveProps.contains nWcc && liveProps.contains nIR) = true"
           " := by decide +kernel\n"
           "#print axioms live_no_prefix\n")
    ok, outp = ctx.lean_file("C18Table.lean", src)
    ctx.count("tables.property_names", len(names))
    if not ok:
        ctx.mismatch("side condition of npz_roundtrip fails for the live property names: " + outp[-400:],
                     dict(names=names))


# ------------------------------------------------------------------------------------------------
# property oracle on the real code

def eq_exact(a, b):
    a, b = np.asarray(a), np.asarray(b)
    return a.shape == b.shape and np.array_equal(a, b)


def physics(ctx, s, s2, what, case, tol_rel):
    """bands and Berry curvature of the reloaded system vs the original at random k"""
    from ..wbsys import evalk
    k = ctx.nprng().uniform(-0.5, 0.5, 3)
    q = ["energy"] + (["berry_curvature"] if s.has_R_mat("AA") and s2.has_R_mat("AA") else [])
    r1, r2 = evalk(s, k, q), evalk(s2, k, q)
    E = r1["energy"]
    gap = np.min(np.diff(np.sort(E))) if len(E) > 1 else 1.0
    scale = 1.0 + np.abs(E).max()
    if np.abs(r1["energy"] - r2["energy"]).max() > tol_rel * scale:
        ctx.fail(f"{what}: band energies of the reloaded system differ by {np.abs(r1['energy'] - r2['energy']).max():.3e}",
                 dict(case, k=k))
    if "berry_curvature" in q and gap > 1e-2:
        O1, O2 = r1["berry_curvature"], r2["berry_curvature"]
        bound = tol_rel * (1 + np.abs(O1).max()) * (scale / gap) ** 2 * 10
        if np.abs(O1 - O2).max() > bound:
            ctx.fail(f"{what}: Berry curvature of the reloaded system differs by {np.abs(O1 - O2).max():.3e} (bound {bound:.1e})",
                     dict(case, k=k))


def oracle(ctx, scale):
    from wannierberri.system.system_R import System_R
    from wannierberri.system.system_tb import get_system_tb
    from wannierberri.system.system_hr import get_system_hr
    import wannierberri.system.system_R as sysR_mod
    rng = ctx.rng
    nprng = ctx.nprng()
    work = os.path.join(ctx.work, "oracle")
    os.makedirs(work, exist_ok=True)
    N = ctx.n(16, 90) * scale
    groups = {"cubic": [[], ["C4z"], ["C4z", "Mx"], ["Inversion", "TimeReversal"], ["C4z", "C4x", "Inversion"],
                        ["C2x", "TimeReversal*C2z"]],
              "ortho": [[], ["C2z"], ["Mx", "My"], ["Inversion"], ["C2x", "C2y", "TimeReversal"]],
              "hex": [[], ["C3z"], ["C6z", "Mx"], ["C3z", "TimeReversal"], ["C6z", "Inversion", "C2x"]],
              "tric": [[], ["Inversion"], ["TimeReversal"]]}
    for it in range(N):
        nw = rng.choice([1, 2, 3, 4, 5, 6, 7])
        nR = rng.choice([1, 2, 3, 5, 8, 13, 15, 16, 20, 30]) if nw <= 4 else rng.choice([1, 2, 3, 6])
        if it < 4:
            # the text formats write the R-vector degeneracies 15 per line: the boundary sizes always run first,
            # in both tiers (exact multiples of 15 and their neighbours), on small systems
            nR = (15, 30, 14, 16)[it]
            nw = (2, 1, 3, 2)[it]
        Rs = rand_Rs(rng, nR)
        kind = rng.choice(["cubic", "ortho", "hex", "tric"])
        L = rand_lattice(nprng, kind)
        wcc = rand_wcc(rng, nprng, nw)
        hasAA = rng.random() < 0.65
        extra = rng.sample(["BB", "CC", "SS"], rng.randint(0, 2)) if hasAA else []
        zb = rng.choice([0.0, 0.35, 0.7]) if nR > 1 else 0.0
        mats = rand_mats(rng, nprng, nw, Rs, ["Ham"] + (["AA"] if hasAA else []) + extra, uniform(nprng, 2.0), zero_blocks=zb)
        nzero = {k: int(sum(1 for i in range(nR) if not np.any(v[i]))) for k, v in mats.items()}
        ctx.count(f"oracle.zero_blocks={'none' if not any(nzero.values()) else 'some'}")
        if hasAA and any((not np.any(mats['Ham'][i])) and np.any(mats['AA'][i]) for i in range(nR)):
            ctx.count("oracle.R_with_Ham=0_AA!=0")
        gens = rng.choice(groups[kind])
        case = dict(num_wann=nw, nRvec=nR, iRvec=Rs, lattice=L, centres=wcc, matrices=sorted(mats), generators=gens,
                    seed_case=it)
        with ctx.attempt("building the system", case):
            s = make_system(nw, Rs, L, wcc, mats)
            with quiet():
                s.set_pointgroup(symmetry_gen=list(gens))
        ctx.count(f"oracle.num_wann={'odd' if nw % 2 else 'even'}")
        ctx.count(f"oracle.nR={'<=15' if nR <= 15 else '>15'}")
        ctx.count(f"oracle.AA={hasAA}")
        ctx.case(signature=("sys", nw, tuple(Rs), hasAA, tuple(gens), it), nontrivial=(nw % 2 == 1 or nR >= 2))
        seed = os.path.join(work, f"s{it}")

        # ---------------- npz directory, listed in a random order
        with ctx.attempt("to_npz / from_npz", case):
            d = seed + "_npz"
            with quiet():
                s.to_npz(d)
            real_glob = _glob.glob
            order_rng = np.random.default_rng(rng.getrandbits(32))

            def shuffled(pat, *a, **k):
                r = sorted(real_glob(pat, *a, **k))
                order_rng.shuffle(r)
                return r
            sysR_mod.glob.glob = shuffled
            try:
                with quiet():
                    s2 = System_R.from_npz(d)
            finally:
                sysR_mod.glob.glob = real_glob
            bad = []
            if s2.num_wann != s.num_wann:
                bad.append("num_wann")
            for name, a, b in (("real_lattice", s.real_lattice, s2.real_lattice),
                               ("wannier_centers_cart", s.wannier_centers_cart, s2.wannier_centers_cart),
                               ("iRvec", s.rvec.iRvec, s2.rvec.iRvec),
                               ("periodic", s.periodic, s2.periodic),
                               ("rvec.shifts_left_red", s.rvec.shifts_left_red, s2.rvec.shifts_left_red),
                               ("rvec.shifts_right_red", s.rvec.shifts_right_red, s2.rvec.shifts_right_red),
                               ("rvec.lattice", s.rvec.lattice, s2.rvec.lattice)):
                if not eq_exact(a, b):
                    bad.append(name)
            if sorted(s2._XX_R) != sorted(s._XX_R):
                bad.append(f"matrix keys {sorted(s2._XX_R)}")
            else:
                for key in s._XX_R:
                    if not eq_exact(s.get_R_mat(key), s2.get_R_mat(key)):
                        bad.append("matrix " + key)
            pg, pg2 = s.pointgroup, s2.pointgroup
            if pg2.size != pg.size or not eq_exact(pg.real_lattice, pg2.real_lattice) or any(
                    not (eq_exact(a.R, b.R) and bool(a.TR) == bool(b.TR) and bool(a.Inv) == bool(b.Inv))
                    for a, b in zip(pg.symmetries, pg2.symmetries)):
                bad.append(f"pointgroup (size {pg.size} -> {pg2.size})")
            if bad:
                ctx.fail("npz round trip does not give back: " + ", ".join(bad), case)
            else:
                physics(ctx, s, s2, "npz", case, 1e-12)
            ctx.count(f"oracle.group_size={pg.size}")

        # ---------------- _tb.dat
        with ctx.attempt("write_tb_file / get_system_tb", case):
            mode = rng.choice(["default", "default", "given", "noswitch", "ham_only"])
            if not hasAA:
                mode = "ham_only"
            tbf = seed + "_tb.dat"
            useII = mode != "noswitch"
            with quiet():
                if rng.random() < 0.5:
                    s.to_tb_file(tb_file=tbf, use_convention_II=useII)
                else:
                    from wannierberri.system.system_tb import write_tb_file
                    write_tb_file(s, tbf, use_convention_II=useII)
                if mode == "default":
                    s3 = get_system_tb(tbf, berry=True)
                elif mode == "given":
                    s3 = get_system_tb(tbf, berry=True, wannier_centers_cart=wcc.copy())
                elif mode == "noswitch":
                    s3 = get_system_tb(tbf, berry=True, convention_II_to_I=False, wannier_centers_cart=wcc.copy())
                else:
                    s3 = System_R.from_tb_file(tbf, berry=False, wannier_centers_cart=wcc.copy()) if rng.random() < 0.5 \
                        else get_system_tb(tbf, berry=False, wannier_centers_cart=wcc.copy())
            ctx.count(f"oracle.tb.{mode}")
            tcase = dict(case, tb_mode=mode)
            bad = []
            if s3.num_wann != nw:
                bad.append("num_wann")
            if not eq_exact(s3.rvec.iRvec, s.rvec.iRvec):
                bad.append("iRvec (order included)")
            if not eq_exact(s3.real_lattice, s.real_lattice):
                bad.append("real_lattice (np.savetxt prints 18 digits: exact)")
            if not eq_exact(s3.get_R_mat("Ham"), rho_arr(s.get_R_mat("Ham"))):
                bad.append("Ham_R != printed value of the original")
            i0 = s.rvec.iR0
            if mode == "default":
                # centres = printed value; AA diagonal at R=0 exactly 0 (original: 0); the rest printed values
                if not eq_exact(s3.wannier_centers_cart, rho_arr(wcc)):
                    bad.append("wannier centres != printed value")
                want = rho_arr(s.get_R_mat("AA"))
                if not eq_exact(s3.get_R_mat("AA"), want):
                    bad.append("AA_R != printed value of the original")
            elif mode == "given":
                # written diagonal = rho(0 + centre); the reader subtracts the given centre again
                want = rho_arr(s.get_R_mat("AA"))
                want[i0, np.arange(nw), np.arange(nw)] = rho_arr(wcc) - wcc
                if not eq_exact(s3.get_R_mat("AA"), want):
                    bad.append("AA_R != printed value (diagonal at R=0: printed centre minus given centre)")
                if not eq_exact(s3.wannier_centers_cart, wcc):
                    bad.append("given wannier centres changed")
            elif mode == "noswitch":
                if not eq_exact(s3.get_R_mat("AA"), rho_arr(s.get_R_mat("AA"))):
                    bad.append("AA_R != printed value (no convention switch)")
                if not eq_exact(s3.wannier_centers_cart, wcc):
                    bad.append("given wannier centres changed")
            if bad:
                ctx.fail("_tb.dat round trip: " + "; ".join(bad), tcase)
            else:
                physics(ctx, s, s3, "_tb.dat", tcase, 1e-8 * nR * nw)

        # ---------------- _hr.dat + Wannier-centre file
        with ctx.attempt("write_hr_file / get_system_hr", case):
            with quiet():
                if rng.random() < 0.5:
                    s.to_hr_file(seedname=seed)
                else:
                    from wannierberri.system.system_hr import write_hr_file
                    write_hr_file(s, seed)
                if rng.random() < 0.5:
                    s4 = get_system_hr(seed, real_lattice=L)
                else:
                    s4 = System_R.from_hr_file(seed, real_lattice=L)
            bad = []
            if s4.num_wann != nw:
                bad.append("num_wann")
            if not eq_exact(s4.rvec.iRvec, s.rvec.iRvec):
                bad.append("iRvec (order included)")
            if not eq_exact(s4.get_R_mat("Ham"), rho_arr(s.get_R_mat("Ham"))):
                bad.append("Ham_R != printed value of the original")
            wexp = np.where(np.abs(wcc) > 1e-7, wcc, 0.0)
            if not eq_exact(s4.wannier_centers_cart, wexp):
                bad.append(f"wannier centres (num_wann={nw}) != written centres")
            if not eq_exact(s4.rvec.shifts_left_red, wexp.dot(np.linalg.inv(L))):
                if np.abs(s4.rvec.shifts_left_red - wexp.dot(np.linalg.inv(L))).max() > 1e-14:
                    bad.append("R-vector shifts are not the reloaded centres")
            if bad:
                ctx.fail("_hr.dat round trip: " + "; ".join(bad), case)
            else:
                sH = make_system(nw, Rs, L, wcc, {"Ham": mats["Ham"]})
                physics(ctx, sH, s4, "_hr.dat", case, 1e-8 * nR * nw + 1e-6)
        for ext in ("_tb.dat", "_hr.dat", "_wannier_centre_WT_format.dat"):
            if os.path.exists(seed + ext):
                os.remove(seed + ext)
        shutil.rmtree(seed + "_npz", ignore_errors=True)

    pointgroup_oracle(ctx, scale)


def pointgroup_oracle(ctx, scale):
    """PointGroup(dictionary=pg.as_dict()) has the same elements in the same order (groups with 3- and 6-fold axes
    included: their matrices are irrational, the closure test uses a 1e-12 tolerance)"""
    from wannierberri.symmetry.point_symmetry import PointGroup, Rotation, Mirror
    rng = ctx.rng
    nprng = ctx.nprng()
    pools = [(np.eye(3), ["C4z", "C4x", "C2x", "Mx", "My", "Mz", "Inversion", "TimeReversal", "C4z*TimeReversal"]),
             (np.array([[1, 0, 0], [-0.5, np.sqrt(3) / 2, 0], [0, 0, 1.3]]), ["C3z", "C6z", "C2x", "C2y", "Mz", "Mx",
                                                                               "Inversion", "TimeReversal"])]
    for it in range(ctx.n(10, 40) * scale):
        L, pool = rng.choice(pools)
        gens = rng.sample(pool, rng.randint(0, 3))
        glist = list(gens)
        if rng.random() < 0.3 and L[0, 0] == 1 and L[1, 1] == 1:
            glist.append(Rotation(3, [1, 1, 1]))
            gens = gens + ["C3(111)"]
        case = dict(generators=gens)
        with ctx.attempt("PointGroup as_dict round trip", case):
            with quiet():
                pg = PointGroup(glist, real_lattice=L)
                d = pg.as_dict()
                fn = os.path.join(ctx.work, "pg.npz")
                np.savez(fn, **d)
                pg2 = PointGroup(dictionary=np.load(fn))
            ctx.case(signature=("pg", tuple(gens)), nontrivial=pg.size > 1)
            ctx.count(f"oracle.pg_size={pg.size}")
            ok = pg2.size == pg.size and all(
                eq_exact(a.R, b.R) and bool(a.TR) == bool(b.TR) and bool(a.Inv) == bool(b.Inv)
                for a, b in zip(pg.symmetries, pg2.symmetries))
            if not ok:
                ctx.fail(f"PointGroup(dictionary=as_dict()) differs: size {pg.size} -> {pg2.size}", case)


def replay(ctx, case):
    oracle(ctx, 1)
