"""C12, thorough tier: run() with the REAL ray (3 workers).  Tasks sleep for a time that depends on the K-point so
that they complete out of order; results must equal the serial run.  Prints one line `RESULT <json>`."""
import json
import os
import random
import shutil
import sys
import time

sys.path.insert(0, os.path.dirname(os.path.dirname(os.path.dirname(os.path.abspath(__file__)))))
import numpy as np  # noqa

from harness.common import quiet  # noqa
from harness.props import _rungrid as rg  # noqa
from harness.props._rungrid import wb  # noqa


class SlowHash(rg.HashCalc):
    """HashCalc that sleeps 0-40 ms depending on the K-point (completion order != submission order)"""

    def value(self, k):
        v = super().value(k)
        time.sleep(0.004 * (int(v[0]) % 11))
        return v


def main():
    seed = int(sys.argv[1]) if len(sys.argv) > 1 else 0
    rng = random.Random(seed)
    import ray
    t_start = time.time()
    with quiet():
        # workers inherit the driver's environment (PYTHONPATH=<repo>:<verif>); no runtime_env (needs no agent)
        ray.init(num_cpus=3, include_dashboard=False, log_to_driver=False)
    t_init = time.time() - t_start
    out = []
    d = rg.scratch("c12ray")
    # completion order of the remote tasks, observed through ray.wait itself
    import wannierberri.run_grid as run_grid
    orders = []
    real_wait = ray.wait

    def spy_wait(refs, **kw):
        ready, rest = real_wait(refs, **kw)
        pos = {r: i for i, r in enumerate(refs)}
        orders[-1].append(sorted(pos[r] for r in ready))
        return ready, rest
    ray.wait = spy_wait
    try:
        for name, kind in (("haldane_c3", "integrate"), ("cubic_c4i", "integrate"), ("haldane", "path"), ("cubic", "grid")):
            system = rg.toy_system(name)
            two_d = name.startswith("haldane")
            T = wb.calculators.tabulate
            if kind == "integrate":
                with quiet():
                    grid = wb.Grid(system, NKdiv=[4, 4, 1] if two_d else 2, NKFFT=[1, 1, 1])
                calcs = {"hash": SlowHash(salt=rng.randint(0, 99)), "peak": rg.PeakCalc([0.1, 0.2, 0.0 if two_d else 0.3], 0.1)}
                kw = dict(adpt_num_iter=2, adpt_fac=2, print_progress_step_percent=rng.choice([1, 30]))
            elif kind == "path":
                pts = [[rng.randint(-16, 32) / 16, rng.randint(-16, 32) / 16, 0.0] for _ in range(17)]
                with quiet():
                    grid = wb.Path(system, k_list=pts)
                calcs = {"tab": T.TabulatorAll({"Energy": T.Energy(), "berry": T.BerryCurvature()}, mode="path", save_mode=""),
                         }
                kw = dict(k_batch=2)
            else:
                with quiet():
                    grid = wb.Grid(system, NKdiv=2, NKFFT=2)
                calcs = {"tab": T.TabulatorAll({"Energy": T.Energy(), "berry": T.BerryCurvature()}, mode="grid", save_mode="")}
                kw = dict(use_irred_kpt=False, symmetrize=False)
            case = dict(system=name, kind=kind, **kw)
            common = dict(fout_name=d + "/o", file_Klist_path=d + "/kl", **kw)
            with quiet():
                r0 = wb.run(system, grid, calcs, parallel=False, **common)
                orders.append([])
                r1 = wb.run(system, grid, calcs, parallel=True, **common)
            # out of order = some answer of ray.wait was not a prefix 0..m-1 of the submitted tasks
            ooo = any(a != list(range(len(a))) for a in orders[-1])
            ok, what = True, ""
            for k, v in r0.results.items():
                if hasattr(v, "Energies"):
                    a, b = np.array(v.data), np.array(r1.results[k].data)
                    if a.shape != b.shape or np.abs(a - b).max() > 1e-11 * max(1, np.abs(a).max()):
                        ok, what = False, f"integrated '{k}' differs between real-ray parallel and serial run: {np.abs(a - b).max()}"
                else:
                    t0, t1 = v, r1.results[k]
                    if t0.kpoints.shape != t1.kpoints.shape or np.abs(t0.kpoints - t1.kpoints).max() > 1e-12:
                        ok, what = False, "tabulated k-points differ between real-ray parallel and serial run"
                    else:
                        for q in t0.results:
                            a, b = t0.results[q].data, t1.results[q].data
                            if a.shape != b.shape or np.abs(a - b).max() > 1e-10 * max(1, np.abs(a).max()):
                                ok, what = False, f"tabulated '{q}' differs between real-ray parallel and serial run"
            out.append(dict(case=case, ok=ok, what=what, out_of_order=bool(ooo)))
    finally:
        with quiet():
            ray.shutdown()
        shutil.rmtree(d, ignore_errors=True)
    print("RESULT " + json.dumps(dict(cases=out, init_s=round(t_init, 1), total_s=round(time.time() - t_start, 1))))


main()
