"""C33 - tetrahedron / parallelepiped corner energies are the band energies at the corner k-points."""
import itertools
import numpy as np
from fractions import Fraction as Fr

from ..common import ints, intss, rats, ratss, F, quiet
from .c02 import make_system, gen_iRvec, gstr, cplx

PID = "C33"
CLAIM = dict(
    design="3/C33",
    technique="Lean 4 proof that the phase products used at the corners are the character of the corner k-point "
              "(multiplicativity of an abstract exponential on any additive group of k-vectors), per spin block with its own "
              "R list, on top of the C02 box theorem + exact correspondence of the corner Hamiltonians over Gaussian rationals "
              "+ oracle comparing E_K_corners_* and the (eCenter, eCorners) that Data_K.tetraWeights hands to the tetrahedron method, for "
              "every system kind, with direct diagonalisation at the corner / centre k-points",
    text="Theorems: expdK[ix,:,0]*expdK[iy,:,1]*expdK[iz,:,2] = chi_v(R) with v = ((ix,iy,iz)-1/2)*dK for every R, every "
         "half step and every multiplicative exponential; since Ham_R of the Data_K object already carries chi_K, the matrix "
         "that is diagonalised at a corner is, for every FFT box size (collisions included) and under the inverse-DFT "
         "contract, sum_R chi_{m/N+K+v}(R) H(R) - the Hamiltonian at the corner k-point; the same for tetrahedron vertices; "
         "a phase array built from the block's OWN R list multiplies every entry by the phase of its own R (spin-up, "
         "spin-down and SOC blocks separately), the interlaced assembly puts the blocks where direct evaluation puts them; a "
         "proved counterexample shows that the pre-fix code (spin-down block with the spin-up phase array) gives a different "
         "matrix when the R lists differ (finding F5, repaired); phonon_freq_from_square = sign(E) g(|E|) is odd and "
         "monotone and is applied entrywise after diagonalising the corner matrix, so corner frequencies are the frequencies at "
         "the corner k-points; k.p corners: evaluating at fold((p+dK) mod 1 + v) is the direct evaluation fold(p+dK+v) because "
         "the folding of SystemKP is 1-periodic, in the reduced and in the Cartesian convention for every reciprocal cell; in "
         "Cartesian coordinates the corner is K.B + sum_i s_i dK_i b_i = K.B + s.(diag(dK) B) for every lattice, and the transposed "
         "contraction (diag(dK) B).s differs in a proved oblique example.  Model tied to the code by exact comparison of the phase "
         "arrays and of every recorded corner Hamiltonian on Gaussian-integer data.",
    note="Trusted: Lean kernel + Mathlib; harness; FFT library (inverse-DFT contract); numpy.linalg.eigvalsh (abstract "
         "spectrum routine in the theorems); band selection (Emin/Emax) is checked on the real code only.",
)
TRUSTED = [
    "modelled: expdK_corners_parallel / expdK_corners_tetra, the per-corner phase product, Ham_R * phase, R_to_k (fft branch via "
    "the C02 model), Data_K_soc block assembly with per-block R lists (and the pre-fix variant as documentation)",
    "hypothesis IDFTContract (see C02)",
    "modelled: phonon_freq_from_square (exact on signed perfect squares), Data_K_k corner evaluation incl. SystemKP.k_to_1BZ "
    "folding and the reduction of the FFT k-points modulo 1 (exact on a one-band quadratic k.p model)",
    "not modelled (oracle only): Data_K.tetraWeights (the consumer: eCorners / eCenter in the same units, phonon map applied "
    "exactly once), eigvalsh, select_bands / Emin / Emax, K-point refinement (divide), GridTetra construction",
]
RULE = ("k.p models in cubic (kmax), anisotropic orthorhombic, hexagonal and oblique cells given through recip_lattice= / "
        "real_lattice=, Cartesian and reduced k convention, 1-3 bands; "
        "systems: System_R (1-4 WF), phonon-flagged System_R (indefinite 'dynamical matrix'), SystemSOC with one spin channel, "
        "two channels with equal and with different R lists, with and without an SOC term, SystemKP; grids NKdiv, NKFFT in "
        "[1,4]^3 non-cubic, FFT boxes smaller than recommended, random and refined K-points, random tetrahedra; all three FFT "
        "libraries; Emin/Emax selections; non-trivial = more than one k-point or more than one R vector; distinct = distinct "
        "(system kind, R sets, grid, K-point)")


# ------------------------------------------------------------------------------------------------
# builders

def int_hermitian(rng, iR, nw, m=4):
    """Gaussian-integer X with X(-R) = X(R)^dagger on the inversion-symmetric list iR"""
    idx = {tuple(R): i for i, R in enumerate(iR)}
    X = np.zeros((len(iR), nw, nw), dtype=complex)
    for i, R in enumerate(iR):
        j = idx[tuple(-R)]
        if j < i:
            continue
        A = np.array([[complex(rng.randint(-m, m), rng.randint(-m, m)) for _ in range(nw)] for _ in range(nw)])
        if j == i:
            A = A + A.conj().T
            X[i] = A
        else:
            X[i] = A
            X[j] = A.conj().T
    return X


def set_matrix(system, iR, X, key="Ham", centres=None):
    from wannierberri.fourier.rvectors import Rvectors
    shifts = system.wannier_centers_red if centres is None else centres
    system.rvec = Rvectors(lattice=system.real_lattice, iRvec=iR, shifts_left_red=shifts)
    system.set_R_mat(key, X, reset=True)
    if hasattr(system, "_NKFFT_recommended"):
        del system._NKFFT_recommended


def make_soc(rng, nw, kind, integer=False, lattice=None):
    """SystemSOC. kind: 'one' (single spin channel), 'same' (two channels, same R list), 'diff' (different R lists),
    each with or without the SOC term (chosen at random)"""
    from wannierberri.system.system_soc import SystemSOC
    from wannierberri.fourier.rvectors import Rvectors
    nps = np.random.RandomState(rng.getrandbits(31))
    with quiet():
        up = make_system(rng, nw=nw, keys=("Ham",), lattice=lattice, maxR=1 if integer else None, nR=6 if integer else None)
        if integer:
            set_matrix(up, up.rvec.iRvec, int_hermitian(rng, up.rvec.iRvec, nw))
        if kind == "one":
            dn = None
        else:
            dn = make_system(rng, nw=nw, keys=("Ham",), lattice=up.real_lattice, maxR=1 if integer else None,
                             nR=6 if integer else None)
            if kind == "same":
                # the same SET of R vectors; half of the time listed in a different ORDER (position-indexed phase arrays
                # taken from the other channel would then be silently wrong although the shapes agree)
                iR = up.rvec.iRvec.copy()
                if rng.random() < 0.5:
                    perm = list(range(len(iR)))
                    rng.shuffle(perm)
                    iR = iR[perm]
            else:
                while True:
                    iR = gen_iRvec(rng, nmax=rng.choice([1, 3, 6, 12]), maxR=1 if integer else rng.choice([1, 2, 3]),
                                   symmetric=True)
                    if {tuple(r) for r in iR} != {tuple(r) for r in up.rvec.iRvec}:
                        break
            X = int_hermitian(rng, iR, nw) if integer else None
            if X is None:
                X = nps.normal(size=(len(iR), nw, nw)) + 1j * nps.normal(size=(len(iR), nw, nw))
                rvt = Rvectors(lattice=up.real_lattice, iRvec=iR)
                X = 0.5 * (X + rvt.conj_XX_R(X))
            set_matrix(dn, iR, X)
        soc = SystemSOC(up, dn)
        has_soc = rng.random() < 0.6
        if has_soc:
            iR = gen_iRvec(rng, nmax=rng.choice([1, 3, 7]), maxR=1, symmetric=True)
            soc.rvec = Rvectors(lattice=soc.real_lattice, iRvec=iR, shifts_left_red=soc.wannier_centers_red)
            if integer:
                X = int_hermitian(rng, iR, 2 * nw)
            else:
                X = nps.normal(size=(len(iR), 2 * nw, 2 * nw)) + 1j * nps.normal(size=(len(iR), 2 * nw, 2 * nw))
                X = 0.5 * (X + soc.rvec.conj_XX_R(X))
            soc.set_R_mat("Ham_SOC", X)
            soc.has_soc = True
    return soc


def kp_cell(rng, dyadic=False):
    """reciprocal / real cell of a k.p model: cubic kmax box, anisotropic orthorhombic, hexagonal, oblique (triclinic);
    returns (kind, kwargs for SystemKP)"""
    kind = rng.choice(["kmax", "ortho", "hex", "oblique", "oblique", "real-hex", "real-oblique"])
    if kind == "kmax":
        return kind, dict(kmax=rng.choice([0.5, 1.0, 2.0]))
    if kind == "ortho":
        B = np.diag([rng.choice([1.0, 1.5, 2.5]), rng.choice([0.75, 2.0, 3.0]), rng.choice([1.0, 1.25, 4.0])])
    elif kind in ("hex", "real-hex"):
        a, c = rng.choice([1.0, 2.0, 2.5]), rng.choice([1.0, 1.5, 3.0])
        h = 0.875 if dyadic else np.sqrt(3) / 2
        B = np.array([[a, 0, 0], [-a / 2, a * h, 0], [0, 0, c]])
    else:
        while True:
            B = np.eye(3) * rng.choice([1.0, 2.0]) + np.array([[rng.randint(-4, 4) / 8 for _ in range(3)] for _ in range(3)])
            if np.linalg.det(B) > 0.5 and np.abs(B - B.T).max() > 0.2:
                break
    if kind.startswith("real"):
        return kind, dict(kmax=None, real_lattice=B)
    return kind, dict(kmax=None, recip_lattice=B)


def build_kp(ctx_count, rng, Ham, cart, dyadic=False):
    """SystemKP in a random cell.  The constructor of SystemKP always runs the finite-difference shell search
    (find_shells), which fails with a TypeError for many non-cubic cells (no set of shells satisfying B1 within 50 shells);
    such cells cannot be used at all and are re-drawn (counted)"""
    from wannierberri.system.system_kp import SystemKP
    for _ in range(40):
        cellkind, kw = kp_cell(rng, dyadic=dyadic)
        try:
            with quiet():
                return cellkind, SystemKP(Ham=Ham, k_vector_cartesian=cart, **kw)
        except TypeError as e:
            if "NoneType" not in str(e):
                raise
            if ctx_count is not None:
                ctx_count(f"kp.cell_rejected_by_find_shells.{cellkind}")
    with quiet():
        return "kmax", SystemKP(Ham=Ham, k_vector_cartesian=cart, kmax=1.0)


def make_kp(rng, ctx_count=None):
    """random Hermitian multi-band k.p model H(k) = A0 + sum_i k_i A_i + sum_ij k_i k_j B_ij in a cubic, orthorhombic,
    hexagonal or oblique cell (given through kmax=, recip_lattice= or real_lattice=), k Cartesian or reduced"""
    from wannierberri.system.system_kp import SystemKP
    nps = np.random.RandomState(rng.getrandbits(31))
    nw = rng.randint(1, 3)

    def herm():
        A = nps.normal(size=(nw, nw)) + 1j * nps.normal(size=(nw, nw))
        return A + A.conj().T
    A0, A1, B = herm(), [herm() for _ in range(3)], [[herm() for _ in range(3)] for _ in range(3)]

    def Ham(k):
        return A0 + sum(k[i] * A1[i] for i in range(3)) + sum(k[i] * k[j] * B[i][j] for i in range(3) for j in range(3))
    cart = rng.random() < 0.6
    cellkind, s = build_kp(ctx_count, rng, Ham, cart)
    s._verif_desc = dict(cell=cellkind, k_vector_cartesian=cart, recip_lattice=np.array(s.recip_lattice))
    s._verif_ham = Ham
    return s


def direct_H(system, k):
    """direct evaluation of the Hamiltonian at the reduced k-point k, written from the definitions"""
    from wannierberri.system.system_soc import SystemSOC
    from wannierberri.system.system_kp import SystemKP
    if isinstance(system, SystemKP):
        # from the definition: fold the reduced k into [-1/2,1/2), convert with the rows of the reciprocal cell if the
        # model takes Cartesian k, call the user's function
        kf = (np.asarray(k, dtype=float) + 0.5) % 1 - 0.5
        if hasattr(system, "_verif_ham"):
            karg = kf @ system._verif_desc["recip_lattice"] if system._verif_desc["k_vector_cartesian"] else kf
            return np.array(system._verif_ham(karg))
        return np.array(system.Ham(k))

    def ft(s, key):
        return np.tensordot(np.exp(2j * np.pi * (s.rvec.iRvec @ k)), s.get_R_mat(key), axes=(0, 0))
    if isinstance(system, SystemSOC):
        n = system.num_wann
        H = np.zeros((n, n), dtype=complex)
        H[::2, ::2] = ft(system.system_up, "Ham")
        H[1::2, 1::2] = ft(system.system_down, "Ham")
        if system.has_soc:
            H += ft(system, "Ham_SOC")
        return H
    return ft(system, "Ham")


def freq(E, phonon):
    if not phonon:
        return E
    return np.sign(E) * np.sqrt(np.abs(E))


def grid_system(system):
    """the system a Grid is built from: a SystemSOC without SOC term has no R list of its own (rvec is None) and cannot
    answer NKFFT_recommended, so its spin-up channel is used (the grid only needs the lattice and the point group)"""
    from wannierberri.system.system_soc import SystemSOC
    if isinstance(system, SystemSOC) and system.rvec is None:
        return system.system_up
    return system


def pick_kpoint(rng, system, kind_grid):
    """returns (grid, Kpoint, description)"""
    from ..wbsys import wb
    system = grid_system(system)
    from wannierberri.grid.Kpoint_tetra import KpointBZtetra
    div = [rng.choice([1, 1, 2, 3, 4]) for _ in range(3)]
    fft = [rng.choice([1, 1, 2, 3, 4]) for _ in range(3)]
    while np.prod(fft) > 24:
        fft[rng.randrange(3)] = 1
    with quiet():
        grid = wb.Grid(system, NKdiv=div, NKFFT=fft, use_symmetry=False)
        Kl = grid.get_K_list(use_symmetry=False)
    Kp = rng.choice(Kl)
    desc = dict(NKdiv=div, NKFFT=fft, K=Kp.K.tolist())
    if kind_grid == "paral":
        if rng.random() < 0.3:
            with quiet():
                kids = Kp.divide(ndiv=np.array([rng.choice([1, 2, 3]) for _ in range(3)]), periodic=[True] * 3, use_symmetry=False)
            Kp = rng.choice(kids)
            desc.update(refined=True, K=Kp.K.tolist(), dK=Kp.dK.tolist())
        return grid, Kp, desc
    nps = np.random.RandomState(rng.getrandbits(31))
    verts = nps.uniform(-0.6, 0.6, (4, 3)) * rng.choice([1.0, 0.3, 0.05])
    Kt = KpointBZtetra(vertices=verts, K=nps.uniform(0, 1, 3), NKFFT=grid.FFT, basis=grid.recip_lattice / grid.FFT[:, None])
    desc.update(vertices=verts.tolist(), K=Kt.K.tolist())
    return grid, Kt, desc


# ------------------------------------------------------------------------------------------------
# correspondence

def corr(ctx):
    from .c01 import run_batched
    run_batched(ctx, [corr_expdk, corr_corner, corr_phonon, corr_kp])


def exact_grid(rng, system):
    """Grid/K-point with dK_fullBZ/2 and K/NKFFT multiples of 1/4 on every axis (phases are 4th roots of unity)"""
    from ..wbsys import wb
    while True:
        pairs = [rng.choice([(1, 1), (2, 1), (1, 2)]) for _ in range(3)]
        div = [p[0] for p in pairs]
        fft = [p[1] for p in pairs]
        break
    with quiet():
        grid = wb.Grid(grid_system(system), NKdiv=div, NKFFT=fft, use_symmetry=False)
        Kp = rng.choice(grid.get_K_list(use_symmetry=False))
    h4 = [int(round(4 * x / 2)) for x in Kp.dK_fullBZ]            # half step in quarters: 4 * dK/2
    dq = [int(round(4 * x)) for x in Kp.Kp_fullBZ]                 # K in quarters
    assert np.allclose(np.array(h4) / 4, Kp.dK_fullBZ / 2) and np.allclose(np.array(dq) / 4, Kp.Kp_fullBZ)
    return grid, Kp, div, fft, h4, dq


def corr_expdk(ctx):
    from wannierberri.data_K.data_K_R import Data_K_R
    rng = ctx.rng
    lines, expect, cases = [], [], []
    for it in range(ctx.n(30, 200)):
        with quiet():
            s = make_system(rng, nw=1, keys=("Ham",), maxR=rng.choice([1, 3]))
        grid, Kp, div, fft, h4, dq = exact_grid(rng, s)
        case = dict(iRvec=s.rvec.iRvec, NKdiv=div, NKFFT=fft, K=Kp.K)
        with ctx.attempt("expdK_corners_parallel", case):
            with quiet():
                d = Data_K_R(s, dK=Kp.Kp_fullBZ, grid=grid, Kpoint=Kp, fftlib="numpy")
                arr = np.array(d.expdK_corners_parallel)
            lines.append(f"expdk {ints(h4)} {intss(d.rvec.iRvec)}")
            expect.append(arr)
            cases.append(case)
    out = yield lines
    for l, o, e, c in zip(lines, out, expect, cases):
        ctx.case(signature=l, nontrivial=len(c["iRvec"]) > 1)
        parts = o.split(" | ")
        m = np.array([[cplx(row) for row in p.split("#")] for p in parts])
        if m.shape != e.shape or np.abs(m - e).max() > 1e-13:
            ctx.mismatch(f"expdK_corners_parallel differs from the model (max {np.abs(m - e).max() if m.shape == e.shape else 'shape'})",
                         dict(line=l, case=c))


class Rec:
    """records the matrices that E_K_corners_* obtains from rvec.R_to_k (the Hamiltonians that are diagonalised)"""

    def __init__(self, rvec):
        self.out = []
        orig = rvec.R_to_k

        def wrapped(XX_R, der=0, hermitian=True):
            res = orig(XX_R, der=der, hermitian=hermitian)
            self.out.append(np.array(res).copy())
            return res
        rvec.R_to_k = wrapped


def corr_corner(ctx):
    """every Hamiltonian block that is diagonalised at the 8 corners, for Data_K_R and Data_K_soc (own R list per block),
    on Gaussian-integer Hermitian data: exact comparison with the model"""
    from wannierberri.data_K import get_data_k_class_from_system
    rng = ctx.rng
    lines, expect, cases = [], [], []
    corners = list(itertools.product((0, 1), repeat=3))
    for it in range(ctx.n(20, 150)):
        kind = rng.choice(["R", "one", "same", "diff", "diff"])
        nw = rng.randint(1, 2)
        with quiet():
            if kind == "R":
                s = make_system(rng, nw=nw, keys=("Ham",), maxR=1, nR=6)
                set_matrix(s, s.rvec.iRvec, int_hermitian(rng, s.rvec.iRvec, nw))
            else:
                s = make_soc(rng, nw, kind, integer=True)
        grid, Kp, div, fft, h4, dq = exact_grid(rng, s)
        lib = rng.choice(["fftw", "numpy", "slow"])
        case = dict(kind=kind, num_wann=nw, NKdiv=div, NKFFT=fft, K=Kp.K, fftlib=lib)
        with ctx.attempt("E_K_corners_parallel (recorded Hamiltonians)", case):
            with quiet():
                d = get_data_k_class_from_system(s)(s, dK=Kp.Kp_fullBZ, grid=grid, Kpoint=Kp, fftlib=lib)
                if kind == "R":
                    _ = d.E_K
                    blocks = {"R": (d, s)}
                else:
                    blocks = {"up": (d.data_K_up, s.system_up), "down": (d.data_K_down, s.system_down)}
                    if s.has_soc:
                        blocks["soc"] = (d, s)
                recs = {}
                seen = {}
                for name, (dk, sysb) in blocks.items():
                    if id(dk.rvec) in seen:          # one spin channel: up and down share the object
                        recs[name] = seen[id(dk.rvec)]
                    else:
                        recs[name] = seen[id(dk.rvec)] = Rec(dk.rvec)
                d.E_K_corners_parallel()
            for name, (dk, sysb) in blocks.items():
                key = "Ham_SOC" if name == "soc" else "Ham"
                X = sysb.get_R_mat(key)
                iR = dk.rvec.iRvec
                outs = recs[name].out
                if kind == "one" and name in ("up", "down"):
                    outs = outs[0::2] if name == "up" else outs[1::2]
                if len(outs) != 8:
                    ctx.mismatch(f"E_K_corners_parallel: block {name} was transformed {len(outs)} times, expected 8", case)
                    continue
                n = X.shape[1]
                a, b = rng.randrange(n), rng.randrange(n)
                for ic, cr in enumerate(corners):
                    if rng.random() < 0.5 and ic not in (0, 7):
                        continue
                    lines.append(f"corner {ints(cr)} {ints(fft)} {ints(dq)} {ints(h4)} {intss(iR)} {gstr(X[:, a, b])}")
                    expect.append(outs[ic][:, a, b])
                    cases.append(dict(case, block=name, corner=cr, a=a, b=b))
            ctx.count(f"corr.corner.kind={kind}")
            if kind == "diff":
                su, sd = s.system_up.rvec.iRvec, s.system_down.rvec.iRvec
                ctx.count("corr.corner.soc.lists_differ" if su.shape != sd.shape or np.any(su != sd) else "corr.corner.soc.lists_equal")
    out = yield lines
    for l, o, e, c in zip(lines, out, expect, cases):
        ctx.case(signature=l, nontrivial=True)
        m = cplx(o)
        if m.shape != e.shape or np.abs(m - e).max() > 1e-11 * (1 + np.abs(e).max()):
            ctx.mismatch(f"corner Hamiltonian block '{c['block']}' at corner {c['corner']} element ({c['a']},{c['b']}): "
                         f"code differs from the model by {np.abs(m - e).max() if m.shape == e.shape else 'shape'}",
                         dict(line=l[:300], case=c))
    if lines:
        ctx.sample(dict(protocol_line=lines[0][:300], model=out[0][:200]))



def corr_phonon(ctx):
    """Data_K.phonon_freq_from_square on signed perfect squares of dyadic numbers (exact in doubles) vs the model"""
    from ..wbsys import wb
    from wannierberri.data_K.data_K_R import Data_K_R
    rng = ctx.rng
    lines, expect, cases = [], [], []
    with quiet():
        s = make_system(rng, nw=1, keys=("Ham",), nR=1, maxR=1)
        s.is_phonon = True
        grid = wb.Grid(s, NKdiv=1, NKFFT=1, use_symmetry=False)
        Kp = grid.get_K_list(use_symmetry=False)[0]
        d = Data_K_R(s, dK=Kp.Kp_fullBZ, grid=grid, Kpoint=Kp, fftlib="numpy")
        s2 = make_system(rng, nw=1, keys=("Ham",), nR=1, maxR=1)
        d2 = Data_K_R(s2, dK=Kp.Kp_fullBZ, grid=grid, Kpoint=Kp, fftlib="numpy")
    for it in range(ctx.n(10, 60)):
        roots = [Fr(rng.randint(0, 40), rng.choice([1, 2, 4, 8])) for _ in range(rng.randint(1, 8))]
        E = [r * r * rng.choice([1, -1]) for r in roots]
        Ef = np.array([float(x) for x in E]).reshape(1, -1)
        case = dict(E=Ef)
        with ctx.attempt("phonon_freq_from_square", case):
            got = np.array(d.phonon_freq_from_square(Ef.copy())).reshape(-1)
            same = np.array(d2.phonon_freq_from_square(Ef.copy())).reshape(-1)
            if not np.array_equal(same, Ef.reshape(-1)):
                ctx.fail("phonon_freq_from_square changes the energies of a NON-phonon system", case)
            lines.append(f"phonon {rats(E)}")
            expect.append(got)
            cases.append(case)
    out = yield lines
    for l, o, e, c in zip(lines, out, expect, cases):
        ctx.case(signature=l, nontrivial=True)
        m = np.array([float(Fr(t)) for t in o.split(",")])
        if m.shape != e.shape or np.abs(m - e).max() > 0:
            ctx.mismatch(f"phonon_freq_from_square: model={m.tolist()} code={e.tolist()}", dict(line=l, case=c))


def corr_kp(ctx):
    """Data_K_k corner energies of a one-band k.p model with a quadratic polynomial in reduced coordinates vs the model
    (folding into the box, reduction of the FFT k-points modulo 1, corner / vertex vectors)"""
    from ..wbsys import wb
    from wannierberri.system.system_kp import SystemKP
    from wannierberri.data_K.data_K_k import Data_K_k
    from wannierberri.grid.Kpoint_tetra import KpointBZtetra
    rng = ctx.rng
    lines, expect, cases = [], [], []
    corners = list(itertools.product((0, 1), repeat=3))
    for it in range(ctx.n(14, 100)):
        coef = [Fr(rng.randint(-16, 16), 8) for _ in range(7)]
        cf = [float(x) for x in coef]

        def Ham(k, cf=cf):
            return np.array([[cf[0] + cf[1] * k[0] + cf[2] * k[1] + cf[3] * k[2] + cf[4] * k[0] * k[0]
                              + cf[5] * k[1] * k[1] + cf[6] * k[2] * k[2]]], dtype=complex)
        geom = rng.choice(["paral", "paral", "tetra"])
        cart = rng.random() < 0.6
        cellkind, s = build_kp(ctx.count, rng, Ham, cart, dyadic=True)
        with quiet():
            # parallelepiped corners fall on the folding boundary 1/2 only when NKdiv*NKFFT is odd on that axis
            pairs = [rng.choice([(1, 2), (2, 1), (2, 3), (3, 2), (4, 1), (1, 4), (2, 2), (3, 4), (5, 2), (3, 3)]) for _ in range(3)]
            div = [p[0] for p in pairs]
            fft = [p[1] for p in pairs]
            grid = wb.Grid(s, NKdiv=div, NKFFT=fft, use_symmetry=False)
            Kp = rng.choice(grid.get_K_list(use_symmetry=False))
            if geom == "tetra":
                verts = np.array([[rng.randint(-8, 8) / 16 for _ in range(3)] for _ in range(4)])
                Kp = KpointBZtetra(vertices=verts, K=np.array([rng.randint(0, 16) / 16 for _ in range(3)]), NKFFT=grid.FFT,
                                   basis=np.eye(3))
            d = Data_K_k(s, dK=Kp.Kp_fullBZ, grid=grid, Kpoint=Kp)
            E = d.E_K_corners_parallel() if geom == "paral" else d.E_K_corners_tetra()
        vs = [(np.array(c) - 0.5) * Kp.dK_fullBZ for c in corners] if geom == "paral" else list(Kp.vertices_fullBZ)
        pts = np.array(grid.points_FFT)
        dK = np.array(Kp.Kp_fullBZ)
        allk = np.array([(p + dK) % 1 + v for p in pts for v in vs])
        # the cell the model uses: the rows of the reciprocal lattice if the Hamiltonian takes Cartesian k, else identity
        Bm = np.array(s.recip_lattice) if cart else np.eye(3)
        case = dict(coefficients=cf, cell=cellkind, recip_lattice=np.array(s.recip_lattice), k_vector_cartesian=cart,
                    NKdiv=div, NKFFT=fft, K=Kp.K, geometry=geom)
        if np.abs(((allk + 0.5) % 1)).min() < 1e-7 or np.abs(((allk + 0.5) % 1) - 1).min() < 1e-7:
            ctx.count("corr.kp.skipped_corner_on_box_boundary")
            continue
        lines.append(f"kpcornerc {rats(coef)} {ratss([[F(x) for x in r] for r in Bm])} {ratss([[F(x) for x in p] for p in pts])} "
                     f"{rats(F(x) for x in dK)} {ratss([[F(x) for x in v] for v in vs])}")
        expect.append(np.array(E).reshape(len(pts), -1))
        cases.append(case)
        ctx.count(f"corr.kp.geometry={geom}")
        ctx.count(f"corr.kp.cell={cellkind}")
        ctx.count("corr.kp.k_cartesian" if cart else "corr.kp.k_reduced")
    out = yield lines
    for l, o, e, c in zip(lines, out, expect, cases):
        ctx.case(signature=l, nontrivial=True)
        m = np.array([[float(Fr(t)) for t in blk.split(",")] for blk in o.split("#")])
        if m.shape != e.shape or np.abs(m - e).max() > 1e-11 * (1 + np.abs(m).max()):
            ctx.mismatch(f"k.p corner energies differ from the model by {np.abs(m - e).max() if m.shape == e.shape else 'shape'}",
                         dict(line=l[:300], case=c))


# ------------------------------------------------------------------------------------------------
# oracle

def oracle(ctx, scale):
    from wannierberri.data_K import get_data_k_class_from_system
    rng = ctx.rng
    corners = list(itertools.product((0, 1), repeat=3))
    for it in range(ctx.n(150, 1500) * scale):
        kind = rng.choice(["R", "R", "phonon", "soc-one", "soc-same", "soc-diff", "soc-diff", "kp", "kp"])
        with quiet():
            if kind in ("R", "phonon"):
                s = make_system(rng, keys=("Ham",), scale=rng.choice([1.0, 10.0, 0.01]))
                if kind == "phonon":
                    s.is_phonon = True
            elif kind.startswith("soc"):
                s = make_soc(rng, rng.randint(1, 3), kind[4:])
            else:
                s = make_kp(rng, ctx.count)
        geom = rng.choice(["paral", "paral", "tetra"])
        grid, Kp, desc = pick_kpoint(rng, s, geom)
        lib = rng.choice(["fftw", "numpy", "slow"])
        params = dict(fftlib=lib)
        window = None
        if rng.random() < 0.25:
            window = sorted([rng.uniform(-3, 3), rng.uniform(-3, 3)])
            params.update(Emin=window[0], Emax=window[1])
        case = dict(kind=kind, geometry=geom, grid=desc, fftlib=lib, window=window, num_wann=s.num_wann)
        if kind.startswith("soc"):
            case.update(iRvec_up=s.system_up.rvec.iRvec, iRvec_down=s.system_down.rvec.iRvec, has_soc=s.has_soc,
                        iRvec_soc=(s.rvec.iRvec if s.has_soc else None))
            su, sd = s.system_up.rvec.iRvec, s.system_down.rvec.iRvec
            ctx.count("oracle.soc.R_lists_differ" if su.shape != sd.shape or np.any(su != sd) else "oracle.soc.R_lists_equal")
            ctx.count("oracle.soc.with_soc_term" if s.has_soc else "oracle.soc.without_soc_term")
        elif kind != "kp":
            case.update(iRvec=s.rvec.iRvec)
        else:
            case.update(kp=s._verif_desc)
            ctx.count(f"oracle.kp.cell={s._verif_desc['cell']}")
            ctx.count("oracle.kp.k_cartesian" if s._verif_desc["k_vector_cartesian"] else "oracle.kp.k_reduced")
        ctx.count(f"oracle.kind={kind}")
        ctx.count(f"oracle.geometry={geom}")
        ctx.count("oracle.window" if window else "oracle.no_window")
        cls = get_data_k_class_from_system(s)
        with ctx.attempt(f"E_K_corners ({kind}, {geom})", case):
            with quiet():
                d = cls(s, dK=Kp.Kp_fullBZ, grid=grid, Kpoint=Kp, **params)
                E = d.E_K_corners_parallel() if geom == "paral" else d.E_K_corners_tetra()
                dtest = cls(s, dK=Kp.Kp_fullBZ, grid=grid, Kpoint=Kp, **{k: v for k, v in params.items() if k != "fftlib"})
                Etest = dtest.E_K_corners_parallel_test() if geom == "paral" else dtest.E_K_corners_tetra_test()
            ks = np.array(d.kpoints_all)
            nb = s.num_wann
            if geom == "paral":
                vs = [(np.array(c) - 0.5) * Kp.dK_fullBZ for c in corners]
                ref = np.zeros((len(ks), 2, 2, 2, nb))
            else:
                vs = list(Kp.vertices_fullBZ)
                ref = np.zeros((len(ks), 4, nb))
            if kind == "kp":
                # a k.p Hamiltonian is wrapped to [-1/2,1/2) and is discontinuous at the box boundary: a corner that falls
                # on the boundary has no well defined energy (rounding decides the side) - such K-points are skipped
                allk = np.array([k + v for k in ks for v in vs])
                if np.abs(((allk + 0.5) % 1)).min() < 1e-7 or np.abs(((allk + 0.5) % 1) - 1).min() < 1e-7:
                    ctx.count("oracle.kp.skipped_corner_on_box_boundary")
                    continue
            hmax = 0.0
            for ik, k in enumerate(ks):
                for iv, v in enumerate(vs):
                    H = direct_H(s, k + v)
                    hmax = max(hmax, np.abs(H).max())
                    e = freq(np.linalg.eigvalsh(H), kind == "phonon")
                    if geom == "paral":
                        ref[(ik,) + corners[iv]] = e
                    else:
                        ref[ik, iv] = e
            ctx.case(signature=(kind, geom, repr(desc), lib, repr(window)), nontrivial=(len(ks) > 1 or kind == "kp" or True))
            # the object's own band / k-point selection (Emin/Emax) is taken as given
            selK = np.asarray(d.select_K, dtype=bool) if hasattr(d, "select_K") else np.ones(len(ks), bool)
            selB = np.asarray(d.select_B, dtype=bool) if hasattr(d, "select_B") else np.ones(nb, bool)
            refsel = ref[selK][..., selB]
            tol = 1e-11 * (1 + hmax) * max(1, s.num_wann)
            if kind == "phonon":
                tol = np.sqrt(tol)     # sqrt amplifies rounding near zero frequencies
            if E.shape != refsel.shape:
                ctx.fail(f"corner energies have shape {E.shape}, direct evaluation (with the object's selection) {refsel.shape}", case)
            else:
                err = np.abs(E - refsel).max() if E.size else 0.0
                if err > tol:
                    ctx.fail(f"corner energies differ from direct evaluation at the corner k-points by {err:.3e} "
                             f"(allowed {tol:.1e})", dict(case, err=err))
            # the CONSUMER of the corner energies: Data_K.tetraWeights hands (eCenter, eCorners) to the tetrahedron method;
            # what is used there must be the energies at the corner k-points and at the centres, in the same units
            with quiet():
                d2 = cls(s, dK=Kp.Kp_fullBZ, grid=grid, Kpoint=Kp, **params)
                tw = d2.tetraWeights
            cref = np.array([freq(np.linalg.eigvalsh(direct_H(s, k)), kind == "phonon") for k in ks])
            selK2 = np.asarray(d2.select_K, dtype=bool)
            selB2 = np.asarray(d2.select_B, dtype=bool)
            want_c = ref[selK2][..., selB2]
            want_0 = cref[selK2][:, selB2]
            used_c, used_0 = np.array(tw.eCorners), np.array(tw.eCenter)
            if used_c.shape != want_c.shape or used_0.shape != want_0.shape:
                ctx.fail(f"tetraWeights: eCorners/eCenter have shapes {used_c.shape}/{used_0.shape}, direct evaluation "
                         f"{want_c.shape}/{want_0.shape}", case)
            elif used_c.size:
                e1, e0 = np.abs(used_c - want_c).max(), np.abs(used_0 - want_0).max()
                if e1 > tol:
                    ctx.fail(f"the corner energies USED by the tetrahedron method (Data_K.tetraWeights.eCorners) differ from direct "
                             f"evaluation at the corner k-points by {e1:.3e} (allowed {tol:.1e})", dict(case, err=e1))
                if e0 > tol:
                    ctx.fail(f"the centre energies used by the tetrahedron method (tetraWeights.eCenter) differ from direct "
                             f"evaluation by {e0:.3e} (allowed {tol:.1e})", dict(case, err=e0))
            if window is None:
                if Etest.shape != ref.shape or np.abs(Etest - ref).max() > tol:
                    ctx.fail("the library's own reference method E_K_corners_*_test differs from direct evaluation "
                             f"({np.abs(Etest - ref).max() if Etest.shape == ref.shape else Etest.shape})", case)


def replay(ctx, case):
    oracle(ctx, 1)
