"""C02 - all Fourier-transform back ends (fftw, numpy, explicit sum, explicit k list) give the same k-space matrices
and derivatives; the results are Hermitian."""
import itertools
import numpy as np
from fractions import Fraction as Fr

from ..common import rats, ratss, ints, intss, F, quiet

PID = "C02"
CLAIM = dict(
    design="3/C02",
    technique="Lean 4 proof over a model of FFT_R_to_k (box placement with collisions, slow-FT index, k-list sum), "
              "apply_expdK, cRvec_shifted/derivative and the hermitian option, for an abstract box-periodic multiplicative "
              "character in any field + exact correspondence over Gaussian rationals (boxes dividing 4, dK multiples of 1/4) "
              "+ cross-back-end oracle on the real code",
    text="Theorems: for EVERY box size (also smaller than recommended, where different R collide) the sum over the box of "
         "chi(c)*box(c) equals the sum over the R list of chi(R)*X(R) for every box-periodic chi; zeta^N=1 implies "
         "exponent[(k*R) mod N] = zeta^(k*R); hence the fft path (under the contract that the library computes the inverse "
         "DFT sum), the slow path and the explicit k-list sum are the same number chi_k-sum with chi_k = chi_m * chi_dK; "
         "if X(-R)=X(R)^dagger on an inversion-symmetric duplicate-free R list then every n-fold derivative factor "
         "i^n prod (R+t_b-t_a)_alpha preserves that relation and the k-space matrix and all its derivative components are "
         "Hermitian; hermitize is idempotent and fixes Hermitian input; for EVERY history of set_fft_R_to_k calls on one "
         "Rvectors object (grids with any NK/fftlib/dK and k lists in any order) R_to_k returns what the CURRENT "
         "configuration alone prescribes (state machine with the stale expdK of the k-list branch modelled); the hermitian/antihermitean "
         "option acts on the two band indices in every k layout (flat, reshapeKline=False grid, k list), is a no-op on "
         "Hermitian data, and differs from exchanging grid axes (proved example); _rotate "
         "(U^dagger X U) maps Hermitian matrices to Hermitian matrices for any U, so Xbar(name, der) is Hermitian component by "
         "component.  Model tied to the code by exact comparison of box "
         "contents, cRvec_shifted, and R_to_k(der=0..3) values for fftw/numpy/slow/k-list on Gaussian-integer data, and of call sequences on one object.",
    note="Trusted: Lean kernel + Mathlib; the harness; numpy.fft / FFTW compute the inverse DFT sum (hypothesis IDFTContract; "
         "checked numerically against the explicit sum on every run); FFTW plan reuse and in-place destruction are runtime "
         "behaviour exercised by the oracle only.  Data_K_R glue (HH_K, Xbar, _rotate) is checked on the real code.",
)
TRUSTED = [
    "modelled: FFT_R_to_k.__init__ (iRvec % NKFFT), __call__ fft/slow/slow_path branches and hermitian option, "
    "Rvectors.apply_expdK, cRvec_shifted, derivative, R_to_k (one matrix element / Cartesian component at a time)",
    "hypothesis IDFTContract: ifftn(B)*prod(N) at box point m equals sum_c chi_m(c) B(c) (checked against the slow path "
    "and the explicit sum on every run)",
    "modelled: the Fourier state of one Rvectors object over a history of set_fft_R_to_k calls (expdK, transform)",
    "modelled: Data_K._rotate (U^dagger X U per k-point and Cartesian component; Hermiticity survives it for any U)",
    "not modelled (oracle only): eigh (the U that is used), Data_K_R.HH_K / Xbar dispatch, FFTW plan reuse, in-place destruction "
    "of inputs, Data_K construction from Grid/K-point",
]
RULE = ("R sets of 1-30 vectors within |R_i|<=4 (symmetric under inversion for the oracle), 1-4 Wannier functions with "
        "centres inside/outside the home cell, lattices cubic..triclinic, FFT boxes in [1,6]^3 both >= and < the recommended "
        "size and non-cubic, derivative orders 0-3, dK anywhere in the cell; the full signature of FFT_R_to_k.__call__ (hermitian / antihermitean / "
        "both x reshapeKline True/False x back ends x cubic, N2==N3!=N1 and non-cubic boxes, 0-2 Cartesian indices); histories of 3-10 set_fft_R_to_k calls on one Rvectors object "
        "(different dK, NKFFT, fftlib, k lists, returning to earlier configurations); non-trivial = at least two R vectors collide on "
        "the box (corr box/rtok) or der >= 1 or box smaller than recommended (oracle); distinct = distinct (R set, box, dK, centres)")


# ------------------------------------------------------------------------------------------------
# generators

def gen_iRvec(rng, nmax=16, maxR=4, symmetric=False):
    n = rng.randint(1, nmax)
    S = {(0, 0, 0)}
    while len(S) < n:
        m = rng.choice([1, 1, 2, maxR])
        R = tuple(rng.randint(-m, m) for _ in range(3))
        S.add(R)
        if symmetric:
            S.add(tuple(-x for x in R))
    L = sorted(S)
    rng.shuffle(L)
    return np.array(L, dtype=int)


def gen_box(rng, choices=(1, 2, 3, 4, 5, 6)):
    return [rng.choice(choices) for _ in range(3)]


def gen_dyadic_lattice(rng):
    kind = rng.choice(["cubic", "ortho", "fcc", "triclinic", "triclinic"])
    if kind == "cubic":
        a = rng.choice([1, 1.5, 0.75])
        return np.eye(3) * a
    if kind == "ortho":
        return np.diag([rng.choice([0.75, 1, 1.25, 2]) for _ in range(3)])
    if kind == "fcc":
        return np.array([[0, .5, .5], [.5, 0, .5], [.5, .5, 0]]) * rng.choice([1, 2, 1.5])
    while True:
        L = np.eye(3) + np.array([[rng.randint(-3, 3) / 8 for _ in range(3)] for _ in range(3)])
        if np.linalg.det(L) > 0.4:
            return L


def gint(rng, shape, m=5):
    a = np.array([rng.randint(-m, m) for _ in range(int(np.prod(shape)))]).reshape(shape)
    b = np.array([rng.randint(-m, m) for _ in range(int(np.prod(shape)))]).reshape(shape)
    return a + 1j * b


def gstr(zs):
    return ";".join(f"{int(round(z.real))},{int(round(z.imag))}" for z in zs) if len(zs) else "_"


def cplx(s):
    return np.array([complex(float(Fr(t.split(",")[0])), float(Fr(t.split(",")[1]))) for t in s.split(";")])


def exact_rows(A):
    return ratss([[F(x) for x in row] for row in A])


# ------------------------------------------------------------------------------------------------
# correspondence

def corr(ctx):
    from .c01 import run_batched
    run_batched(ctx, [corr_box, corr_crs, corr_rtok, corr_seq, corr_rotate, corr_callopt])


def corr_box(ctx):
    """box placement `AAA_K[iRvec % NKFFT] += AAA_R` observed by intercepting FFT_R_to_k.transform"""
    from wannierberri.fourier.fft import FFT_R_to_k
    rng = ctx.rng
    lines, expect, cases = [], [], []
    for it in range(ctx.n(60, 500)):
        iR = gen_iRvec(rng, nmax=20)
        N = gen_box(rng)
        X = gint(rng, (len(iR), 1, 1))
        case = dict(iRvec=iR, NKFFT=N, X=X[:, 0, 0])
        with ctx.attempt("FFT_R_to_k box placement", case):
            captured = []
            with quiet():
                fft = FFT_R_to_k(iR, NKFFT=N, num_wann=1, fftlib=rng.choice(["numpy", "fftw"]))
                fft.transform = lambda A: captured.append(A.copy())
                fft(X.copy(), hermitian=False)
            box = captured[0][:, :, :, 0, 0].reshape(-1)
            ncoll = len(iR) - len({tuple(r) for r in (iR % np.array(N))})
            lines.append(f"box {ints(N)} {intss(iR)} {gstr(X[:, 0, 0])}")
            expect.append((fft.iRvec.copy(), box, ncoll))
            cases.append(case)
            ctx.count("corr.box.collisions" if ncoll else "corr.box.no_collisions")
    out = yield lines
    for l, o, e, c in zip(lines, out, expect, cases):
        ctx.case(signature=l, nontrivial=e[2] > 0)
        parts = o.split(" | ")
        if len(parts) != 2:
            ctx.mismatch("box: malformed model output " + o[:80], dict(line=l))
            continue
        m_slots = [[int(t) for t in s.split(",")] for s in parts[0].split(";")]
        if m_slots != e[0].tolist():
            ctx.mismatch(f"FFT_R_to_k: reduced R vectors differ: model={m_slots[:6]} code={e[0].tolist()[:6]}", dict(line=l, case=c))
            continue
        mb = cplx(parts[1])
        if mb.shape != e[1].shape or np.abs(mb - e[1]).max() > 0:
            ctx.mismatch(f"FFT_R_to_k: box contents differ: model={mb[:8]} code={e[1][:8]}", dict(line=l, case=c))
    if lines:
        ctx.sample(dict(protocol_line=lines[0][:300], model=out[0][:300]))


def corr_crs(ctx):
    """cRvec_shifted = R.L - t_a.L + t_b.L on dyadic lattices / centres (exact in doubles)"""
    from wannierberri.fourier.rvectors import Rvectors
    rng = ctx.rng
    lines, expect, cases = [], [], []
    for it in range(ctx.n(30, 200)):
        L = gen_dyadic_lattice(rng)
        nw = rng.randint(1, 4)
        cs = np.array([[rng.randint(-24, 40) / 16 for _ in range(3)] for _ in range(nw)])
        iR = gen_iRvec(rng, nmax=8)
        a, b = rng.randrange(nw), rng.randrange(nw)
        case = dict(lattice=L, centres=cs, iRvec=iR, a=a, b=b)
        with ctx.attempt("Rvectors.cRvec_shifted", case):
            with quiet():
                rv = Rvectors(lattice=L, shifts_left_red=cs, iRvec=iR)
                v = rv.cRvec_shifted[:, a, b, :]
            lines.append(f"crs {exact_rows(L)} {exact_rows(cs)} {intss(iR)} {a} {b}")
            expect.append(v.copy())
            cases.append(case)
    out = yield lines
    for l, o, e, c in zip(lines, out, expect, cases):
        ctx.case(signature=l, nontrivial=c["a"] != c["b"])
        m = np.array([[float(Fr(t)) for t in s.split(",")] for s in o.split(";")])
        if m.shape != e.shape or np.abs(m - e).max() > 1e-13 * (1 + np.abs(e).max()):
            ctx.mismatch(f"cRvec_shifted differs: model={m.tolist()[:3]} code={e.tolist()[:3]}", dict(line=l, case=c))


def corr_rtok(ctx):
    """Rvectors.R_to_k(der=0..3, hermitian=False) after apply_expdK for fftw / numpy / slow / explicit k list on boxes
    dividing 4, dK a multiple of 1/4, Gaussian-integer data, dyadic lattice and centres: exact values"""
    from wannierberri.fourier.rvectors import Rvectors
    rng = ctx.rng
    lines, expect, cases = [], [], []
    for it in range(ctx.n(14, 120)):
        L = gen_dyadic_lattice(rng)
        nw = rng.randint(1, 3)
        cs = np.array([[rng.randint(-16, 24) / 8 for _ in range(3)] for _ in range(nw)])
        iR = gen_iRvec(rng, nmax=ctx.n(10, 16), maxR=3)
        while True:
            N = [rng.choice([1, 2, 2, 4]) for _ in range(3)]
            if N[0] * N[1] * N[2] <= ctx.n(16, 32):
                break
        q = [rng.randint(-5, 7) for _ in range(3)]
        dK = np.array(q) / 4
        der = rng.choice([0, 1, 1, 2, 3])
        X = gint(rng, (len(iR), nw, nw))
        a, b = rng.randrange(nw), rng.randrange(nw)
        al = [rng.randrange(3) for _ in range(der)]
        pts = np.array(list(itertools.product(range(N[0]), range(N[1]), range(N[2]))))
        klist = pts / np.array(N)[None, :] + dK[None, :]
        case = dict(lattice=L, centres=cs, iRvec=iR, NKFFT=N, dK=dK, der=der, a=a, b=b, alphas=al, X=X)
        ncoll = len(iR) - len({tuple(r) for r in (iR % np.array(N))})
        got = {}
        for lib in ("fftw", "numpy", "slow", "klist"):
            with ctx.attempt(f"Rvectors.R_to_k fftlib={lib}", dict(case, fftlib=lib)):
                with quiet():
                    rv = Rvectors(lattice=L, shifts_left_red=cs, iRvec=iR)
                    if lib == "klist":
                        rv.set_fft_R_to_k(NK=N, num_wann=nw, k_list=klist)
                    else:
                        rv.set_fft_R_to_k(NK=N, num_wann=nw, fftlib=lib, dK=dK)
                    Xin = X.copy()
                    res = rv.R_to_k(rv.apply_expdK(Xin), der=der, hermitian=False)
                got[lib] = res[(slice(None), a, b) + tuple(al)].copy()
        if len(got) != 4:
            continue
        lines.append(f"rtok {exact_rows(L)} {exact_rows(cs)} {ints(N)} {ints(q)} {intss(iR)} {a} {b} {ints(al)} {gstr(X[:, a, b])}")
        expect.append(got)
        cases.append(case)
        ctx.count(f"corr.rtok.der={der}")
        ctx.count("corr.rtok.collisions" if ncoll else "corr.rtok.no_collisions")
        ctx.count(f"corr.rtok.box={N[0]}x{N[1]}x{N[2]}")
    out = yield lines
    for l, o, e, c in zip(lines, out, expect, cases):
        ctx.case(signature=l, nontrivial=True)
        parts = o.split(" | ")
        if len(parts) != 3:
            ctx.mismatch("rtok: malformed model output " + o[:80], dict(line=l[:300]))
            continue
        m_fft, m_slow, m_exp = (cplx(p) for p in parts)
        if np.abs(m_fft - m_slow).max() > 0 or np.abs(m_fft - m_exp).max() > 0:
            ctx.mismatch("rtok: the three MODEL paths differ (model broken)", dict(line=l[:300]))
        scale = 1 + np.abs(m_exp).max()
        for lib, mm in (("fftw", m_fft), ("numpy", m_fft), ("slow", m_slow), ("klist", m_exp)):
            if e[lib].shape != mm.shape or np.abs(e[lib] - mm).max() > 1e-12 * scale:
                ctx.mismatch(f"R_to_k(der={c['der']}) fftlib={lib}: code differs from the model by "
                             f"{np.abs(e[lib] - mm).max() if e[lib].shape == mm.shape else 'shape'}", dict(line=l[:300], case=c))
    if lines:
        ctx.sample(dict(protocol_line=lines[0][:300], model=out[0][:300]))



def corr_seq(ctx):
    """a HISTORY of set_fft_R_to_k calls on ONE Rvectors object (grids with different NK / fftlib / dK and k lists in any
    order), R_to_k(apply_expdK(X)) after every call: every result vs the model's state machine (exact, boxes dividing 4,
    dK and k-list entries multiples of 1/4)"""
    from wannierberri.fourier.rvectors import Rvectors
    rng = ctx.rng
    lines, expect, cases = [], [], []
    for it in range(ctx.n(12, 100)):
        iR = gen_iRvec(rng, nmax=8, maxR=3)
        X = gint(rng, (len(iR), 1, 1))
        nsteps = rng.randint(2, 5)
        steps, desc = [], []
        for istep in range(nsteps):
            if rng.random() < 0.3:
                ks = [[rng.randint(-3, 6) for _ in range(3)] for _ in range(rng.randint(1, 4))]
                steps.append("k:" + intss(ks))
                desc.append(("klist", np.array(ks) / 4))
            else:
                while True:
                    N = [rng.choice([1, 2, 2, 4]) for _ in range(3)]
                    if N[0] * N[1] * N[2] <= 16:
                        break
                lib = rng.choice(["fftw", "numpy", "slow"])
                q = [rng.randint(-5, 7) for _ in range(3)]
                steps.append(f"g:{ints(N)}:{1 if lib == 'slow' else 0}:{ints(q)}")
                desc.append(("grid", N, lib, np.array(q) / 4))
        case = dict(iRvec=iR, X=X[:, 0, 0], steps=[list(map(str, d)) for d in desc])
        got = []
        with ctx.attempt("set_fft_R_to_k history on one Rvectors object", case):
            with quiet():
                rv = Rvectors(lattice=np.eye(3), shifts_left_red=np.zeros((1, 3)), iRvec=iR)
                for d in desc:
                    if d[0] == "klist":
                        rv.set_fft_R_to_k(NK=(1, 1, 1), num_wann=1, k_list=d[1])
                    else:
                        rv.set_fft_R_to_k(NK=d[1], num_wann=1, fftlib=d[2], dK=d[3])
                    got.append(np.array(rv.R_to_k(rv.apply_expdK(X.copy()), der=0, hermitian=False)).reshape(-1).copy())
            lines.append(f"seq {'#'.join(steps)} {intss(iR)} {gstr(X[:, 0, 0])}")
            expect.append(got)
            cases.append(case)
            ctx.count(f"corr.seq.nsteps={nsteps}")
            ctx.count("corr.seq.with_klist" if any(d[0] == "klist" for d in desc) else "corr.seq.grids_only")
    out = yield lines
    for l, o, e, c in zip(lines, out, expect, cases):
        ctx.case(signature=l, nontrivial=True)
        blocks = o.split("#")
        if len(blocks) != len(e):
            ctx.mismatch("seq: malformed model output " + o[:80], dict(line=l[:300]))
            continue
        for istep, (b, ev) in enumerate(zip(blocks, e)):
            m = cplx(b)
            if m.shape != ev.shape or np.abs(m - ev).max() > 1e-12 * (1 + np.abs(m).max()):
                ctx.mismatch(f"history of set_fft_R_to_k calls: after call #{istep + 1} ({c['steps'][istep]}) R_to_k differs from "
                             f"the model by {np.abs(m - ev).max() if m.shape == ev.shape else 'shape'}", dict(line=l[:300], case=c))
                break


def corr_rotate(ctx):
    """Data_K._rotate (U^dagger X U per k-point, every Cartesian component) with an injected eigenvector array of Gaussian
    dyadic numbers vs the model, exactly"""
    from ..wbsys import wb
    from wannierberri.data_K.data_K_R import Data_K_R
    rng = ctx.rng
    lines, expect, cases = [], [], []
    for it in range(ctx.n(6, 40)):
        nw = rng.randint(1, 3)
        with quiet():
            s = make_system(rng, nw=nw, keys=("Ham",), nR=3, maxR=1)
            N = [rng.choice([1, 2]) for _ in range(3)]
            grid = wb.Grid(s, NKdiv=1, NKFFT=N, use_symmetry=False)
            Kp = grid.get_K_list(use_symmetry=False)[0]
            d = Data_K_R(s, dK=Kp.Kp_fullBZ, grid=grid, Kpoint=Kp, fftlib="numpy")
        nk = int(np.prod(N))
        U = gint(rng, (nk, nw, nw), m=4) / 2
        ncart = rng.choice([0, 1, 2])
        X = gint(rng, (nk, nw, nw) + (3,) * ncart, m=5)
        case = dict(num_wann=nw, nk=nk, U=U, X=X)
        with ctx.attempt("Data_K._rotate", case):
            d.__dict__["UU_K"] = U            # cached_property: the instance attribute takes precedence
            with quiet():
                R = np.array(d._rotate(X.copy()))
            for _ in range(2):
                ik = rng.randrange(nk)
                comp = tuple(rng.randrange(3) for _ in range(ncart))
                Xs = X[(ik, slice(None), slice(None)) + comp]
                us = ";".join(f"{F(z.real)},{F(z.imag)}" for z in U[ik].reshape(-1))
                lines.append(f"rotate {nw} {us} {gstr(Xs.reshape(-1))}")
                expect.append(R[(ik, slice(None), slice(None)) + comp].reshape(-1))
                cases.append(dict(case, ik=ik, comp=comp))
    out = yield lines
    for l, o, e, c in zip(lines, out, expect, cases):
        ctx.case(signature=l, nontrivial=c["num_wann"] > 1)
        m = cplx(o)
        if m.shape != e.shape or np.abs(m - e).max() > 1e-12 * (1 + np.abs(m).max()):
            ctx.mismatch(f"Data_K._rotate differs from the model U^dagger X U at k #{c['ik']}, component {c['comp']}",
                         dict(line=l[:300], case=c))


def corr_callopt(ctx):
    """FFT_R_to_k.__call__ over its full signature: hermitian / antihermitean flags x reshapeKline in {True, False} x
    fftw / numpy / slow, boxes dividing 4 (cubic, N2 == N3 != N1, non-cubic), Gaussian-integer NON-Hermitian data:
    the element (0,1) at every grid point vs the model (the option acts on the band indices in every k layout)"""
    from wannierberri.fourier.fft import FFT_R_to_k
    rng = ctx.rng
    lines, expect, cases = [], [], []
    for it in range(ctx.n(16, 120)):
        iR = gen_iRvec(rng, nmax=8, maxR=3)
        N = rng.choice([[2, 2, 2], [4, 2, 2], [1, 2, 2], [2, 4, 4], [2, 1, 4], [4, 2, 1], [1, 1, 1], [2, 4, 2]])
        X = gint(rng, (len(iR), 2, 2))
        flag = rng.choice([0, 1, 2])
        flat = rng.random() < 0.5
        lib = rng.choice(["fftw", "numpy", "slow"])
        case = dict(iRvec=iR, NKFFT=N, X=X, hermitian=(flag == 1), antihermitean=(flag == 2), reshapeKline=flat, fftlib=lib)
        with ctx.attempt("FFT_R_to_k.__call__ options", case):
            with quiet():
                fft = FFT_R_to_k(iR, NKFFT=N, num_wann=2, fftlib=lib)
                res = np.array(fft(X.copy(), hermitian=(flag == 1), antihermitean=(flag == 2), reshapeKline=flat))
            want_shape = (int(np.prod(N)), 2, 2) if flat else tuple(N) + (2, 2)
            if res.shape != want_shape:
                ctx.fail(f"FFT_R_to_k(reshapeKline={flat}) returns shape {res.shape}, expected {want_shape}", case)
                continue
            pts = list(itertools.product(range(N[0]), range(N[1]), range(N[2])))
            # the layout is made explicit here: flat index = C order of (k1,k2,k3); grid layout is indexed by the triple
            vals = np.array([res[i, 0, 1] if flat else res[m[0], m[1], m[2], 0, 1] for i, m in enumerate(pts)])
            lines.append(f"callopt {ints(N)} {flag} {intss(iR)} {gstr(X[:, 0, 1])} {gstr(X[:, 1, 0])}")
            expect.append(vals)
            cases.append(case)
            ctx.count(f"corr.callopt.flag={flag}.flat={int(flat)}")
            ctx.count("corr.callopt.N2==N3" if N[1] == N[2] and N[1] > 1 else "corr.callopt.N2!=N3_or_1")
    out = yield lines
    for l, o, e, c in zip(lines, out, expect, cases):
        ctx.case(signature=l, nontrivial=True)
        m = cplx(o)
        if m.shape != e.shape or np.abs(m - e).max() > 1e-12 * (1 + np.abs(m).max()):
            ctx.mismatch(f"FFT_R_to_k.__call__(hermitian={c['hermitian']}, antihermitean={c['antihermitean']}, "
                         f"reshapeKline={c['reshapeKline']}, fftlib={c['fftlib']}, NKFFT={c['NKFFT']}) differs from the model by "
                         f"{np.abs(m - e).max() if m.shape == e.shape else 'shape'}", dict(line=l[:300], case=c))


# ------------------------------------------------------------------------------------------------
# helpers shared with C33: Hermitian random systems with an inversion-symmetric R set

def make_system(rng, nw=None, lattice=None, centres=None, keys=("Ham",), nR=None, maxR=None, scale=1.0):
    """System_R from the repository's generator, with an inversion-symmetric R set and X(-R) = X(R)^dagger"""
    from ..wbsys import rand_system, rand_lattice
    from wannierberri.fourier.rvectors import Rvectors
    from wannierberri.system.system import num_cart_dim
    rs = np.random.RandomState(rng.getrandbits(31))
    nw = nw or rng.randint(1, 4)
    if lattice is None:
        lattice = rand_lattice(rs)
    if centres is None:
        centres = rs.uniform(-0.6, 1.6, (nw, 3)) if rng.random() < 0.8 else np.repeat(rs.uniform(0, 1, (1, 3)), nw, axis=0)
    with quiet():
        s = rand_system(rs, num_wann=nw, nR=3, max_R=1, lattice=lattice, matrices=keys, centers=centres, hermitian=False)
        iR = gen_iRvec(rng, nmax=nR or rng.choice([1, 3, 6, 12, 30]), maxR=maxR or rng.choice([1, 2, 4]), symmetric=True)
        rv = Rvectors(lattice=s.real_lattice, iRvec=iR, shifts_left_red=s.wannier_centers_red)
        s.rvec = rv
        for key in list(s._XX_R):
            shape = (len(iR), nw, nw) + (3,) * num_cart_dim(key)
            X = (rs.normal(size=shape) + 1j * rs.normal(size=shape)) * scale
            X = 0.5 * (X + rv.conj_XX_R(X))
            s.set_R_mat(key, X, reset=True)
        if hasattr(s, "_NKFFT_recommended"):
            del s._NKFFT_recommended
    return s


def explicit_ref(system, key, kpts, der):
    """reference written from the definition:  sum_R e^{2 pi i k.R} [prod_n i (R + t_b - t_a)_alpha_n] X_ab(R)"""
    X = system.get_R_mat(key)
    iR = system.rvec.iRvec
    L = system.real_lattice
    t = system.wannier_centers_cart
    cR = iR @ L                                      # (nR,3)
    v = cR[:, None, None, :] - t[None, :, None, :] + t[None, None, :, :]   # (nR,a,b,3)
    Y = X
    for n in range(der):
        extra = Y.ndim - 3
        Y = 1j * Y[..., None] * v.reshape(v.shape[:3] + (1,) * extra + (3,))
    ph = np.exp(2j * np.pi * (np.asarray(kpts) @ iR.T))
    return np.tensordot(ph, Y, axes=(1, 0))


def herm_err(A):
    """max |A - A^dagger| over the two Wannier indices (axes 1,2) for every k and Cartesian component"""
    return np.abs(A - A.swapaxes(1, 2).conj()).max()


# ------------------------------------------------------------------------------------------------
# oracle

def oracle(ctx, scale):
    oracle_backends(ctx, scale)
    oracle_histories(ctx, scale)
    oracle_call_options(ctx, scale)


def oracle_call_options(ctx, scale):
    """the full signature of FFT_R_to_k.__call__: reshapeKline in {True, False} x (none | hermitian | antihermitean | both)
    x back ends (fftw, numpy, slow, k list) x cubic and non-cubic NKFFT (incl. N2 == N3 != N1) x data with 0-2 Cartesian
    indices, Hermitian and non-Hermitian; every result is compared with the explicit sum over R laid out accordingly, and
    hermitian=True must be a no-op (antihermitean=True must give 0) on Hermitian data"""
    from wannierberri.fourier.fft import FFT_R_to_k
    rng = ctx.rng
    for it in range(ctx.n(40, 400) * scale):
        nps = np.random.RandomState(rng.getrandbits(31))
        iR = gen_iRvec(rng, nmax=rng.choice([1, 4, 9, 20]), maxR=rng.choice([1, 2, 4]), symmetric=True)
        nw = rng.randint(1, 3)
        ncart = rng.choice([0, 0, 1, 2])
        shape = (len(iR), nw, nw) + (3,) * ncart
        X = nps.normal(size=shape) + 1j * nps.normal(size=shape)
        hermdata = rng.random() < 0.6
        if hermdata:
            idx = {tuple(R): i for i, R in enumerate(iR)}
            mR = np.array([idx[tuple(-R)] for R in iR])
            X = 0.5 * (X + X[mR].swapaxes(1, 2).conj())
        N = rng.choice([[3, 3, 3], [2, 3, 3], [4, 2, 2], [1, 5, 5], [2, 3, 4], [5, 1, 2], [1, 1, 1], [3, 2, 2], [2, 2, 5]])
        pts = np.array(list(itertools.product(range(N[0]), range(N[1]), range(N[2]))))
        kpts = pts / np.array(N)[None, :]
        ref = np.tensordot(np.exp(2j * np.pi * (kpts @ iR.T)), X, axes=(1, 0))       # (nk, nw, nw, ...)
        case = dict(iRvec=iR, NKFFT=N, num_wann=nw, ncart=ncart, hermitian_data=hermdata,
                    note="X = (hermitised) complex normal data, seeded")
        ctx.case(signature=("opt", iR.tobytes(), tuple(N), nw, ncart, hermdata), nontrivial=True)
        for lib in ("fftw", "numpy", "slow", "klist"):
            for flat in (True, False):
                for flag in ("none", "hermitian", "antihermitean", "both"):
                    if rng.random() < 0.45:
                        continue
                    kw = dict(hermitian=flag in ("hermitian", "both"), antihermitean=flag in ("antihermitean", "both"),
                              reshapeKline=flat)
                    c2 = dict(case, fftlib=lib, **kw)
                    ctx.count(f"oracle.callopt.{flag}.flat={int(flat)}")
                    try:
                        with quiet():
                            fft = FFT_R_to_k(iR, k_list=kpts, num_wann=nw, fftlib="slow") if lib == "klist" else \
                                FFT_R_to_k(iR, NKFFT=N, num_wann=nw, fftlib=lib)
                            res = np.array(fft(X.copy(), **kw)).copy()
                    except ValueError as e:
                        if flag != "both":
                            ctx.fail(f"FFT_R_to_k.__call__ raised ValueError: {str(e)[:120]}", c2)
                        continue
                    except Exception as e:  # noqa
                        ctx.fail(f"FFT_R_to_k.__call__ raised {type(e).__name__}: {str(e)[:160]}", c2)
                        continue
                    if flag == "both":
                        ctx.fail("hermitian=True together with antihermitean=True did not raise", c2)
                        continue
                    want = ref
                    if flag == "hermitian":
                        want = 0.5 * (ref + ref.swapaxes(1, 2).conj())
                    elif flag == "antihermitean":
                        want = 0.5 * (ref - ref.swapaxes(1, 2).conj())
                    if not flat and lib != "klist":
                        want = want.reshape(tuple(N) + want.shape[1:])
                    tol = 1e-11 * (1 + np.abs(ref).max()) * max(1.0, len(iR) / 10)
                    if res.shape != want.shape:
                        ctx.fail(f"FFT_R_to_k.__call__ returns shape {res.shape}, expected {want.shape}", c2)
                        continue
                    err = np.abs(res - want).max()
                    if err > tol:
                        ctx.fail(f"FFT_R_to_k.__call__(fftlib={lib}, hermitian={kw['hermitian']}, antihermitean={kw['antihermitean']}, "
                                 f"reshapeKline={flat}, NKFFT={N}) differs from the explicit sum over R (laid out accordingly) by "
                                 f"{err:.3e} (allowed {tol:.1e})", dict(c2, err=err))
                    if hermdata:
                        plain = ref.reshape(want.shape) if flag != "antihermitean" else np.zeros_like(want)
                        if flag != "none" and np.abs(res - plain).max() > tol:
                            ctx.fail(f"on Hermitian data {flag}=True must be a no-op (hermitian) / give zero (antihermitean): "
                                     f"fftlib={lib}, reshapeKline={flat}, NKFFT={N}: off by {np.abs(res - plain).max():.3e}", c2)


def oracle_histories(ctx, scale):
    """C02 is quantified over configurations/histories of the public Rvectors / FFT API: ONE Rvectors object is taken through
    a sequence of set_fft_R_to_k calls (different dK, NKFFT, fftlib and explicit k lists, in any order, also returning to an
    earlier configuration); after every call R_to_k(der=0..3) is compared with the explicit sum over R for the CURRENT
    configuration (not only pairwise across back ends)"""
    rng = ctx.rng
    for it in range(ctx.n(25, 250) * scale):
        with quiet():
            s = make_system(rng, keys=("Ham",), nR=rng.choice([3, 6, 12]))
        nw = s.num_wann
        rv = s.rvec                                  # the one object that is re-used
        X = s.get_R_mat("Ham")
        configs = []
        for _ in range(rng.randint(2, 3)):
            N = np.array(gen_box(rng, choices=(1, 2, 3, 4, 5)))
            if np.prod(N) > 60:
                N = np.minimum(N, 3)
            configs.append(("grid", N, rng.choice(["fftw", "numpy", "slow"]), np.array([rng.random() for _ in range(3)])))
        if rng.random() < 0.6:
            configs.append(("klist", np.array([[rng.uniform(-1, 1) for _ in range(3)] for _ in range(rng.randint(1, 5))])))
        seq = [rng.choice(configs) for _ in range(rng.randint(3, 7))]
        if rng.random() < 0.5:      # same grid and library, only dK changes
            g = next(c for c in configs if c[0] == "grid")
            seq += [g, ("grid", g[1], g[2], np.array([rng.random() for _ in range(3)])), g]
        case = dict(num_wann=nw, lattice=s.real_lattice, centres=s.wannier_centers_red, iRvec=rv.iRvec,
                    sequence=[[c[0]] + [np.array(x).tolist() if not isinstance(x, str) else x for x in c[1:]] for c in seq])
        ctx.case(signature=("hist", rv.iRvec.tobytes(), repr(case["sequence"])), nontrivial=True)
        ctx.count(f"oracle.history.length={len(seq)}")
        with ctx.attempt("history of set_fft_R_to_k / R_to_k calls on one Rvectors object", case):
            for istep, c in enumerate(seq):
                with quiet():
                    if c[0] == "klist":
                        rv.set_fft_R_to_k(NK=(1, 1, 1), num_wann=nw, k_list=c[1])
                        kpts = c[1]
                    else:
                        rv.set_fft_R_to_k(NK=c[1], num_wann=nw, fftlib=c[2], dK=c[3])
                        kpts = np.array(list(itertools.product(*[range(n) for n in c[1]]))) / c[1][None, :] + c[3][None, :]
                    der = rng.choice([0, 0, 1, 2, 3])
                    herm = rng.random() < 0.5
                    res = np.array(rv.R_to_k(rv.apply_expdK(X.copy()), der=der, hermitian=herm)).copy()
                ref = explicit_ref(s, "Ham", kpts, der)
                tol = 1e-11 * (np.abs(ref).max() + 1e-300) * max(1.0, rv.nRvec / 10)
                if res.shape != ref.shape:
                    ctx.fail(f"step {istep + 1} ({c[0]}): R_to_k(der={der}) has shape {res.shape}, expected {ref.shape}", case)
                    break
                err = np.abs(res - ref).max()
                if err > tol:
                    ctx.fail(f"after {istep + 1} set_fft_R_to_k calls on one Rvectors object the result of R_to_k(der={der}) for the "
                             f"CURRENT configuration {c[0]}"
                             + (f" (NK={[int(x) for x in c[1]]}, fftlib={c[2]}, dK={np.round(c[3], 4).tolist()})" if c[0] == "grid" else "")
                             + f" differs from the explicit sum over R by {err:.3e} (allowed {tol:.1e}) - state of an earlier call leaked",
                             dict(case, step=istep + 1, err=err))
                    break


def oracle_backends(ctx, scale):
    from ..wbsys import wb
    from wannierberri.data_K.data_K_R import Data_K_R
    rng = ctx.rng
    for it in range(ctx.n(28, 300) * scale):
        keys = ("Ham", "AA") if rng.random() < 0.4 else ("Ham",)
        mag = rng.choice([1.0, 1.0, 1e3, 1e-3])
        with quiet():
            s = make_system(rng, keys=keys, scale=mag)
        nw = s.num_wann
        rec = np.array(s.rvec.NKFFT_recommended())
        mode = rng.choice(["rec", "bigger", "smaller", "random", "one"])
        if mode == "rec":
            N = rec.copy()
        elif mode == "bigger":
            N = rec + np.array([rng.randint(0, 3) for _ in range(3)])
        elif mode == "smaller":
            N = np.maximum(1, rec - np.array([rng.randint(0, 4) for _ in range(3)]))
        elif mode == "one":
            N = np.array([1, 1, 1])
        else:
            N = np.array(gen_box(rng))
        if np.prod(N) > ctx.n(150, 400):
            N = np.minimum(N, 5)
        smaller = bool(np.any(N < rec))
        dK = np.array([rng.random() for _ in range(3)]) if rng.random() < 0.8 else np.array([0.0, 0.5, rng.choice([0, 0.25])])
        case = dict(num_wann=nw, lattice=s.real_lattice, centres=s.wannier_centers_red, iRvec=s.rvec.iRvec, NKFFT=N,
                    NKFFT_recommended=rec, dK=dK, keys=keys, magnitude=mag,
                    note="matrices = hermitised complex normal data from make_system (seeded)")
        ctx.count("oracle.box<recommended" if smaller else "oracle.box>=recommended")
        ctx.count(f"oracle.num_wann={nw}")
        ham0 = s.get_R_mat("Ham").copy()
        results = {}
        kpts = None
        for lib in ("fftw", "numpy", "slow", "klist"):
            with ctx.attempt(f"Data_K_R fftlib={lib}", dict(case, fftlib=lib)):
                with quiet():
                    grid = wb.Grid(s, NKdiv=1, NKFFT=N, use_symmetry=False)
                    Kp = grid.get_K_list(use_symmetry=False)[0]
                    if lib == "klist":
                        d = Data_K_R(s, k_list=kpts.copy(), grid=grid)
                    else:
                        d = Data_K_R(s, dK=dK, grid=grid, Kpoint=Kp, fftlib=lib)
                        if kpts is None:
                            kpts = np.array(d.kpoints_all)
                    r = {"H": d.HH_K.copy()}
                    U = d.UU_K
                    for der in (1, 2, 3):
                        Xb = d.Xbar("Ham", der)
                        r[f"d{der}"] = np.einsum("kab,kbc...,kdc->kad...", U, Xb, U.conj())   # back to the Wannier gauge
                        r[f"bar{der}"] = Xb
                    if "AA" in keys:
                        for der in (0, 1):
                            r[f"A{der}"] = np.einsum("kab,kbc...,kdc->kad...", U, d.Xbar("AA", der), U.conj())
                    # the un-hermitised transforms straight from R_to_k (plan reuse: called again on the same object)
                    #   results are copied at once, as every call site of the library does (see the aliasing check below)
                    keep = None
                    for der in (0, 2):
                        Y = d.rvec.R_to_k(d.get_R_mat("Ham").copy(), der=der, hermitian=False)
                        r[f"raw{der}"] = Y.copy()
                        if der == 0:
                            keep = Y
                    r["raw0again"] = d.rvec.R_to_k(d.get_R_mat("Ham").copy(), der=0, hermitian=False).copy()
                    if not np.array_equal(keep, r["raw0"]):
                        # finding F15: with fftw the array returned by FFT_R_to_k(hermitian=False) is adopted by pyfftw
                        # as the plan's input buffer and overwritten by a later call on the same object
                        ctx.fail(f"the array returned by Rvectors.R_to_k(hermitian=False, fftlib={lib}) was overwritten by a "
                                 f"later R_to_k call on the same object (max change {np.abs(keep - r['raw0']).max():.3e})",
                                 dict(case, fftlib=lib), kf="F15-fftw-result-overwritten" if lib == "fftw" else None)
                results[lib] = r
        if len(results) != 4:
            continue
        if not np.array_equal(s.get_R_mat("Ham"), ham0):
            ctx.fail("the system's Ham_R was modified by building Data_K objects / transforming", case)
        ctx.case(signature=("o", s.rvec.iRvec.tobytes(), tuple(N), dK.tobytes(), s.wannier_centers_red.tobytes()),
                 nontrivial=True)
        nR = s.rvec.nRvec
        ref = {"H": explicit_ref(s, "Ham", kpts, 0)}
        for der in (1, 2, 3):
            ref[f"d{der}"] = explicit_ref(s, "Ham", kpts, der)
        ref["raw0"], ref["raw2"], ref["raw0again"] = ref["H"], ref["d2"], ref["H"]
        if "AA" in keys:
            ref["A0"], ref["A1"] = explicit_ref(s, "AA", kpts, 0), explicit_ref(s, "AA", kpts, 1)
        for name, rf in ref.items():
            mag_q = np.abs(rf).max() + 1e-300
            tol = 1e-11 * mag_q * max(1.0, nR / 10)
            # 1. every back end equals the explicit reference (hence they equal each other)
            for lib, r in results.items():
                if r[name].shape != rf.shape:
                    ctx.fail(f"{name}: fftlib={lib} returns shape {r[name].shape}, expected {rf.shape}", case)
                    continue
                err = np.abs(r[name] - rf).max()
                if err > tol:
                    ctx.fail(f"{name} with fftlib={lib} differs from the explicit sum over R by {err:.3e} (allowed {tol:.1e}; "
                             f"NKFFT={[int(x) for x in N]}, recommended {[int(x) for x in rec]})", dict(case, fftlib=lib, quantity=name, err=err))
            # 2. pairwise agreement (reported separately: this is the statement of the property)
            for la, lb in (("fftw", "numpy"), ("fftw", "slow"), ("fftw", "klist")):
                if results[la][name].shape == results[lb][name].shape:
                    err = np.abs(results[la][name] - results[lb][name]).max()
                    if err > 2 * tol:
                        ctx.fail(f"{name}: fftlib={la} and {lb} disagree by {err:.3e}", dict(case, quantity=name, err=err))
            # 3. Hermiticity (also of the transforms that were NOT forced Hermitian)
            for lib, r in results.items():
                h = herm_err(r[name])
                if h > 2 * tol:
                    ctx.fail(f"{name} (fftlib={lib}) is not Hermitian: max|A-A^dagger| = {h:.3e}", dict(case, fftlib=lib, quantity=name))
        for lib, r in results.items():
            for der in (1, 2, 3):
                h = herm_err(r[f"bar{der}"])
                mag_q = np.abs(r[f"bar{der}"]).max() + 1e-300
                if h > 1e-10 * mag_q * max(1.0, nR / 10):
                    ctx.fail(f"Xbar('Ham',{der}) in the Hamiltonian gauge (fftlib={lib}) is not Hermitian: {h:.3e}",
                             dict(case, fftlib=lib))


def replay(ctx, case):
    oracle(ctx, 1)
