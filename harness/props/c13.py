"""C13 - Fermi-level scans have the documented sea and surface semantics."""
import math
import os
import numpy as np
from fractions import Fraction as Fr

from ..common import F, rat, rats, ints, parse_rats, parse_ratss, quiet

PID = "C13"
CLAIM = dict(
    design="3/C13",
    technique="Lean 4 proof over an executable model of StaticCalculator.__init__/__call__ (Fermi bins, stencils, /nk, "
              "k_resolved, constant_factor / cell_volume / hole_like / use_factor, additive and non-additive value "
              "assembly) and of Data_K.get_bands_in_range_groups_ik; the model is tied to the code by running the REAL "
              "StaticCalculator on a Data_K subclass / Formula objects with dyadic energies and integer traces; property "
              "oracle on real systems and real calculators (CumDOS, DOS, AHC, Ohmic_*, Morb formula, a user Formula)",
    text="Theorems (all band counts, energies, thresholds, uniform Fermi grids of any spacing/count/offset incl. a "
         "single point, any formula values): ceil((E-EFmin)/d) <= j <=> E <= EFmin + j d (a state exactly on a Fermi "
         "level is counted at it), hence restot[j] = sum of the values of exactly the groups with (mean) energy <= "
         "Ef_j, lumped group of lower bands included, each group whole; CumDOS of a k-point is non-decreasing, 0 below "
         "all bands, NB above (every band in exactly one counted group), reported CumDOS = k-average; for fder=1,2,3 the "
         "result equals the code's stencil of the fder=0 calculator on the grid extended by extraEf points (lumped "
         "group cancels) and in closed form the 1st/2nd/5-point-3rd central difference with step dEF of the sea step "
         "sum at Ef_j; mean over k of the k-resolved result = unresolved result; reported number = constant_factor_eff "
         "/ (nk cell_volume) x stencil(k-sum), _DOS classes are cell_volume-free, hole_like (no tetrahedra) is exactly a "
         "sign flip of the sea result and a no-op for fder>=1; additive and non-additive value assembly agree for "
         "additive traces; the group dictionary depends on the sea flag (any memoisation must key on it); the Uniform "
         "hypothesis is necessary (explicit non-uniform counterexample).",
    note="'summed over k' is read as the BZ average: the code divides the unresolved result by nk and not the resolved "
         "one.  Non-uniform Fermi grids are outside the property: the code bins with dEF=Efermi[1]-Efermi[0], e.g. "
         "Efermi=[lo-1, lo-0.9, hi+1] gives CumDOS=0 at the last level although all bands are below it (theorem "
         "nonuniform_grid_miscounts; a probe records the real-code witness in evidence.notes).  Trusted: Lean kernel + "
         "Mathlib; float ceil at exact bin edges (with a non-dyadic spacing fl((E-EFmin)/dEF) can land just above the "
         "integer and move a state that sits exactly on a Fermi level to the next bin); additivity of each formula "
         "(formula.additive) is the code's own assertion.",
)
TRUSTED = [
    "modelled: StaticCalculator.__init__ (extraEf, dEF incl. the 0.001 single-point default, EFmin, EFmax, nEF_extra, "
    "hole_like sign of constant_factor), the non-tetra branch of __call__ (E<EFmin / E<=EFmax / iEf=ceil, restot[iEf:] "
    "+=, stencils for fder 1-3, /cell_volume, /nk, constant_factor or its sign, k_resolved, the additive / "
    "non-additive assembly of group values), _DOS.__call__ (x cell_volume), get_bands_in_range_groups_ik (window "
    "groups, mean energy, select_bands filter, lumped sea group), weight_select_bands",
    "not modelled (oracle only): the formulas themselves (trace values are inputs of the model), EnergyResult / "
    "K__Result packaging, run() glue, smoothers, the tetra branch (C14)",
    "hidden state: the model's group dictionary is a pure function of (energies, emin, emax, thresh, Kramers, sea, "
    "select_bands); the correspondence queries ONE Data_K object repeatedly (same window with sea and surface in both "
    "orders) and the oracle evaluates calculators on a shared Data_K in both orders and alone",
    "exact comparisons in the model vs float comparisons in the code: correspondence inputs are dyadic so ties are hit "
    "exactly (single-point grids, whose spacing 0.001 is not dyadic, are kept off exact ties); the float oracle keeps "
    "Fermi levels 1e-9 away from group energies, the exact-ties oracle uses dyadic grids",
    "non-uniform Fermi grids: outside the quantifier of the property; the code silently assumes uniformity",
]
RULE = ("correspondence: band arrays with multiplets, windows cutting multiplets, Fermi grids with bin edges exactly on "
        "group energies, fder 0-3, 1-4 k-points, additive and non-additive fake formulas, random constant_factor / "
        "cell_volume / hole_like / use_factor, query histories on one Data_K; oracle: random hermitian "
        "systems (plain and spin-doubled), uniform Fermi grids of 1-7 points with spacing 1e-3..1 placed across, below "
        "and above the bands, degen_thresh 1e-8..0.3, band selections; non-trivial = some band energy inside the "
        "(extended) Fermi window; distinct = distinct (kind, system seed, grid, options)")

EPS = 2.0 ** -52


# ---------------------------------------------------------------------------------------------------
# duck-typed inputs for the REAL StaticCalculator

def fake_classes():
    from wannierberri.data_K.data_K import Data_K

    def _init(self, E, vol=1.0):
        # bypasses Data_K.__init__ (needs a System); everything StaticCalculator reads is set in the instance dict,
        # which takes precedence over the cached properties of the class
        self.__dict__["E_K"] = np.array(E, dtype=float)
        self.__dict__["nk"] = self.__dict__["E_K"].shape[0]
        self.__dict__["num_wann"] = self.__dict__["E_K"].shape[1]
        self.__dict__["cell_volume"] = vol
        self.__dict__["force_internal_terms_only"] = False

    ns = {name: (lambda self, *a, **k: None) for name in getattr(Data_K, "__abstractmethods__", ())}
    ns["__init__"] = _init
    FakeDK = type("FakeDK", (Data_K,), ns)

    class FakeFormula:
        """trace(ik, inn, out) = table(ik, first band, last band + 1) (an integer), times (1,2,-1) for ndim=1"""

        def __init__(self, data_K, table=None, ndim=0, additive=True):
            self.table, self.ndim, self._add = table, ndim, additive
            self.transformTR = self.transformInv = None

        @property
        def additive(self):
            return self._add

        def trace(self, ik, inn, out):
            a = int(inn[0]) if len(inn) else 0
            b = int(inn[-1]) + 1 if len(inn) else 0
            assert list(inn) == list(range(a, b)) and sorted(list(inn) + list(out)) == list(range(len(inn) + len(out)))
            v = float(self.table(ik, a, b))
            return np.array(v) if self.ndim == 0 else v * np.array([1., 2., -1.])

    return FakeDK, FakeFormula


def rand_selection(rng, nb, repeats=True, kmax=None):
    """a band selection as the API takes it (a numpy array of band indices; lists / tuples raise TypeError in the
    unchanged `select_bands >= ib1`): ascending, descending or random order, sometimes with a repeated entry (the
    unchanged code counts a repeated band twice in weight_select_bands and once in the group filter)"""
    k = rng.randint(1, kmax or nb)
    sel = rng.sample(range(nb), k)
    order = rng.choice(["ascending", "descending", "random", "random"])
    if order == "ascending":
        sel.sort()
    elif order == "descending":
        sel.sort(reverse=True)
    if repeats and rng.random() < 0.15:
        sel.insert(rng.randint(0, len(sel)), rng.choice(sel))
    return sel


def gen_bands(rng, nmax=7):
    """sorted dyadic band energies with multiplets; threshold"""
    th = Fr(rng.choice([1, 3]), rng.choice([16, 64]))
    n = rng.randint(1, nmax)
    E = [Fr(rng.randint(-16, 16), 8)]
    while len(E) < n:
        E.append(E[-1] + rng.choice([Fr(0), th / 2, th, th * 2, Fr(1, 8), Fr(1, 2), Fr(1)]))
    return E, th


def gen_grid(rng, E):
    """uniform dyadic Fermi grid; with good probability a bin edge coincides with a band energy"""
    n = rng.choice([1, 1, 2, 3, 4, 6])
    d = Fr(rng.choice([1, 1, 3]), rng.choice([2, 4, 8, 32]))
    if n == 1:
        # a single Fermi level uses the non-dyadic spacing 0.001: an exact tie E == Ef + j/1000 would be decided by the
        # rounding of fl(E - fl(Ef - 0.001)) / 0.001 (outside the model: "float ceil at exact bin edges").  An odd
        # multiple of 2^-12 can never tie with a mean of <= 6 energies that are multiples of 2^-7 (margin > 6e-7).
        return [rng.choice(E) + Fr(2 * rng.randint(-40, 40) + 1, 4096)]
    if rng.random() < 0.6:
        ef0 = rng.choice(E) - d * rng.randint(0, n + 2)
    else:
        ef0 = Fr(rng.randint(-40, 40), 16)
    return [ef0 + j * d for j in range(n)]


def corr(ctx):
    from wannierberri.calculators.static import StaticCalculator
    from wannierberri.utility import weight_select_bands
    from math import ceil
    FakeDK, FakeFormula = fake_classes()
    rng = ctx.rng
    lines, checks = [], []

    # (a) bin index -------------------------------------------------------------------------------
    for it in range(ctx.n(80, 1500)):
        d = Fr(rng.choice([1, 3, 5]), rng.choice([1, 4, 16, 1024]))
        efmin = Fr(rng.randint(-64, 64), 16)
        E = efmin + d * rng.randint(0, 9) + rng.choice([Fr(0), Fr(0), d / 2, d / 1024, -d / 1024 + d, Fr(1, 8)])
        got = ceil((float(E) - float(efmin)) / float(d))
        lines.append(f"ief {rat(efmin)} {rat(d)} {rat(E)}")
        checks.append(("ief", len(lines) - 1, got, dict(EFmin=float(efmin), dEF=float(d), E=float(E))))
        ctx.count("corr.ief")

    # (b) group dictionaries: several queries on ONE Data_K object (the dictionary must be a function of all its
    #     arguments - sea and surface calculators of the same window, in both orders, band selections, thresholds)
    for it in range(ctx.n(30, 500)):
        E, th = gen_bands(rng)
        kr0 = rng.random() < 0.3
        if kr0 and len(E) % 2:
            E = E + [E[-1] + 1]
        nb = len(E)
        fk = FakeDK([[float(e) for e in E]])
        emin = rng.choice(E) + rng.choice([Fr(0), -th / 2, th / 2, Fr(-1, 4), Fr(-3)])
        emax = emin + rng.choice([Fr(0), th, Fr(1, 2), Fr(2), Fr(6)])
        queries = []
        for q in range(rng.randint(2, 5)):
            if q and rng.random() < 0.5:
                emin_q, emax_q = emin, emax          # same window again
            else:
                emin_q = rng.choice(E) + rng.choice([Fr(0), -th / 2, th / 2, Fr(-1, 4), Fr(-3)])
                emax_q = emin_q + rng.choice([Fr(0), th, Fr(1, 2), Fr(2), Fr(6)])
            sea = rng.random() < 0.5
            sel = None
            if not sea and rng.random() < 0.4:
                sel = rand_selection(rng, nb)
            th_q = th if rng.random() < 0.7 else th * 2
            queries.append((emin_q, emax_q, sea, sel, th_q, kr0))
        if rng.random() < 0.5:   # the T-C13 pattern and its mirror image
            queries = [(emin, emax, False, None, th, kr0), (emin, emax, True, None, th, kr0)] + queries
        else:
            queries = [(emin, emax, True, None, th, kr0), (emin, emax, False, None, th, kr0)] + queries
        for iq, (emin_q, emax_q, sea, sel, th_q, kr) in enumerate(queries):
            case = dict(E=[float(e) for e in E], emin=float(emin_q), emax=float(emax_q), degen_thresh=float(th_q),
                        degen_Kramers=kr, sea=sea, select_bands=sel, query_number_on_this_Data_K=iq,
                        earlier_queries=[(float(a), float(b), c, d, float(e_)) for a, b, c, d, e_, _ in queries[:iq]])
            with ctx.attempt("get_bands_in_range_groups (shared Data_K)", case):
                got = fk.get_bands_in_range_groups(float(emin_q), float(emax_q), degen_thresh=float(th_q),
                                                   degen_Kramers=kr, sea=sea,
                                                   select_bands=None if sel is None else np.array(sel))[0]
                lines.append(f"groups {rats(E)} {rat(th_q)} {int(kr)} {rat(emin_q)} {rat(emax_q)} {int(sea)} "
                             f"{'none' if sel is None else ints(sel)}")
                checks.append(("groups", len(lines) - 1, dict(got), case))
                ctx.count(f"corr.groups.{'sea' if sea else 'surf'}{'.sel' if sel else ''}")
            if sel is not None:
                a = rng.randint(0, nb - 1)
                b = rng.randint(a + 1, nb)
                lines.append(f"wsel {ints(sel)} {a} {b}")
                checks.append(("wsel", len(lines) - 1, float(weight_select_bands(a, b, np.array(sel))),
                               dict(sel=sel, a=a, b=b)))

    # (c) __init__ parameters and the whole __call__ -------------------------------------------------
    for it in range(ctx.n(90, 1200)):
        nk = rng.choice([1, 2, 2, 4])
        nb = rng.randint(1, 6)
        th = Fr(rng.choice([1, 3]), rng.choice([16, 64]))
        kr = rng.random() < 0.2
        if kr and nb % 2:
            nb += 1
        Es = []
        for ik in range(nk):
            E, _ = gen_bands(rng, nmax=nb)
            while len(E) < nb:
                E.append(E[-1] + rng.choice([Fr(0), th / 2, Fr(1, 4), Fr(1)]))
            Es.append(E)
        Ef = gen_grid(rng, Es[0])
        fder = rng.choice([0, 0, 1, 1, 2, 3])
        additive = rng.random() < 0.7
        ndim = rng.choice([0, 0, 1])
        kres = rng.random() < 0.4
        sel = None
        if fder > 0 and rng.random() < 0.3:
            sel = rand_selection(rng, nb)
        salt = rng.randint(0, 1000)

        def T(ik, m, salt=salt):           # cumulative trace for non-additive formulas
            return ((ik + 2) * (m + 3) * (m + salt)) % 13 - 6

        def table(ik, a, b, salt=salt, additive=additive):
            if additive:
                return ((ik + 1) * 7 + a * 3 + b * b + salt) % 11 - 5
            assert a == 0
            return T(ik, b)

        def value(ik, a, b):
            return table(ik, a, b) if additive else T(ik, b) - T(ik, a)

        vol = Fr(rng.choice([1, 1, 2, 3, 5]), rng.choice([1, 2, 4]))
        cf = Fr(rng.choice([1, 1, -1, 3, -5, 7]), rng.choice([1, 2, 8]))
        hole = rng.random() < 0.3
        usef = rng.random() < 0.8
        fk = FakeDK([[float(e) for e in E] for E in Es], vol=float(vol))
        Ef_f = np.array([float(x) for x in Ef])
        case = dict(E=fk.E_K, Efermi=Ef_f, fder=fder, degen_thresh=float(th), degen_Kramers=kr, additive=additive,
                    ndim=ndim, k_resolved=kres, select_bands=sel, salt=salt, cell_volume=float(vol),
                    constant_factor=float(cf), hole_like=hole, use_factor=usef)
        with ctx.attempt("StaticCalculator on duck-typed Data_K", case):
            calc = StaticCalculator(Efermi=Ef_f, Formula=FakeFormula, fder=fder,
                                    kwargs_formula=dict(table=table, ndim=ndim, additive=additive), k_resolved=kres,
                                    degen_thresh=float(th), degen_Kramers=kr, constant_factor=float(cf),
                                    hole_like=hole, use_factor=usef,
                                    select_bands=None if sel is None else np.array(sel))
            lines.append(f"params {fder} {rats(Ef)}")
            checks.append(("params", len(lines) - 1, [calc.dEF, calc.EFmin, calc.EFmax, calc.nEF_extra], case))
            got = np.array(calc(fk).data)
            # groups per k as the code sees them (from the real function), values from the table
            gk = []
            for ik in range(nk):
                dct = fk.get_bands_in_range_groups_ik(ik, calc.EFmin, calc.EFmax, degen_thresh=float(th),
                                                      degen_Kramers=kr, sea=(fder == 0),
                                                      select_bands=None if sel is None else np.array(sel))
                items = []
                for (a, b), e in dct.items():
                    w = Fr(1) if sel is None else Fr(sum(1 for s_ in sel if a <= s_ < b), b - a)
                    items.append(f"{'-inf' if e == -np.inf else rat(e)}:{rat(value(ik, a, b) * w)}")
                gk.append(",".join(items) if items else "-inf:0")   # an empty k-point = one group of value 0
            lines.append(f"{'fullres' if kres else 'full'} {rat(cf)} {rat(vol)} {int(hole)} {int(usef)} {fder} {rats(Ef)} "
                         f"{';'.join(gk)}")
            checks.append(("call", len(lines) - 1, got, dict(case, ndim=ndim, kres=kres)))
            ctx.count(f"corr.call.fder{fder}.{'kres' if kres else 'unres'}.{'add' if additive else 'nonadd'}"
                      f"{'.hole' if hole else ''}{'' if usef else '.signonly'}")

    out = ctx.lean(lines)
    for kind, idx, got, case in checks:
        o = out[idx]
        ctx.case(signature=(kind, lines[idx]), nontrivial=kind in ("groups", "call"))
        if kind == "ief":
            if int(o) != got:
                ctx.mismatch(f"iEf: code ceil = {got}, model = {o}", dict(case, line=lines[idx]))
        elif kind == "wsel":
            if abs(float(Fr(o)) - got) > 4 * EPS:
                ctx.mismatch(f"weight_select_bands: code {got}, model {o}", dict(case, line=lines[idx]))
        elif kind == "params":
            m = [float(x) for x in parse_rats(o)]
            if any(abs(a - b) > 8 * EPS * (1 + abs(b)) for a, b in zip(got, m)):
                ctx.mismatch(f"StaticCalculator.__init__: (dEF, EFmin, EFmax, nEF_extra) code {got} model {m}",
                             dict(case, line=lines[idx]))
        elif kind == "groups":
            want = {}
            if o != "_":
                for t in o.split(";"):
                    a, b, e = t.split(",")
                    want[(int(a), int(b))] = -math.inf if e == "-inf" else float(Fr(e))
            gotd = {(int(a), int(b)): float(e) for (a, b), e in got.items()}
            if set(want) != set(gotd) or any(abs(want[k] - gotd[k]) > 8 * EPS * (1 + abs(want[k]))
                                             for k in want if math.isfinite(want[k])) \
                    or any(want[k] != gotd[k] for k in want if not math.isfinite(want[k])):
                ctx.mismatch(f"get_bands_in_range_groups_ik: code {gotd} model {want}", dict(case, line=lines[idx]))
        else:
            m = np.array([[float(x) for x in row] for row in parse_ratss(o)]) if case["kres"] \
                else np.array([float(x) for x in parse_rats(o)])
            g = got
            if case["ndim"] == 1:
                m = m[..., None] * np.array([1., 2., -1.])
            scale = 1 + np.abs(m).max()
            if g.shape != m.shape or np.abs(g - m).max() > 64 * EPS * scale:
                ctx.mismatch(f"StaticCalculator.__call__: code {g.tolist()} model {m.tolist()}", dict(case, line=lines[idx]))
    if lines:
        ctx.sample(dict(protocol_line=lines[-1], model=out[-1]))
        ctx.sample(dict(protocol_line=lines[len(lines) // 2], model=out[len(lines) // 2]))


# ---------------------------------------------------------------------------------------------------
# property oracle on real systems

def band_energies(system, k):
    H = system.get_R_mat('Ham')
    ph = np.exp(2j * np.pi * system.rvec.iRvec.dot(np.asarray(k, dtype=float)))
    Hk = np.tensordot(ph, H, axes=(0, 0))
    return np.linalg.eigvalsh(0.5 * (Hk + Hk.conj().T))


def blocks_of(E, th):
    """maximal runs of bands with consecutive gaps <= th (the property's 'degenerate groups')"""
    out, a = [], 0
    for i in range(1, len(E)):
        if E[i] - E[i - 1] > th:
            out.append((a, i))
            a = i
    out.append((a, len(E)))
    return out


def sea_count(Eall, th, x, sel=None):
    """k-average of the number of (selected) bands in groups whose mean energy is <= x; also the distance of x to the
    nearest group mean (ties are excluded from the comparison)"""
    tot, margin = 0.0, math.inf
    for E in Eall:
        for a, b in blocks_of(E, th):
            m = float(np.mean(E[a:b]))
            margin = min(margin, abs(m - x))
            if m <= x:
                tot += (b - a) if sel is None else sum(1 for s_ in sel if a <= s_ < b)
    return tot / len(Eall), margin


STENCIL = {1: ((2, 1.0), (0, -1.0)), 2: ((2, 1.0), (0, 1.0), (1, -2.0)), 3: ((4, 1.0), (0, -1.0), (3, -2.0), (1, 2.0))}
DENOM = {1: lambda d: 2 * d, 2: lambda d: d ** 2, 3: lambda d: 2 * d ** 3}
EXTRA = {0: 0, 1: 1, 2: 1, 3: 2}


def central_difference(n, sea_ext, d):
    """n-th central finite difference (step d) of an array sampled on the extended grid (axis 0), written from the
    textbook formulas: f1 ~ (f(+1)-f(-1))/2d, f2 ~ (f(+1)-2f(0)+f(-1))/d^2, f3 ~ (f(+2)-2f(+1)+2f(-1)-f(-2))/2d^3"""
    x = EXTRA[n]
    s_ = np.asarray(sea_ext)
    out = []
    for c in range(x, len(s_) - x):
        if n == 1:
            out.append((s_[c + 1] - s_[c - 1]) / (2 * d))
        elif n == 2:
            out.append((s_[c + 1] - 2 * s_[c] + s_[c - 1]) / d ** 2)
        else:
            out.append((s_[c + 2] - 2 * s_[c + 1] + 2 * s_[c - 1] - s_[c - 2]) / (2 * d ** 3))
    return np.array(out)


def gen_fermi(rng, lo, hi):
    n = rng.choice([1, 1, 2, 3, 5, 7])
    d = 10.0 ** rng.uniform(-3, 0) if n > 1 else 1e-3
    mode = rng.choice(["span", "span", "span", "below", "above"])
    if mode == "below":
        ef0 = lo - 0.5 - n * d - 3 * d
    elif mode == "above":
        ef0 = hi + 0.5 + 3 * d
    else:
        ef0 = rng.uniform(lo - 2 * d, hi)
    Ef = ef0 + d * np.arange(n)
    return Ef, (Ef[1] - Ef[0] if n > 1 else 1e-3), mode


def ext_grid(Ef, dEF, fder):
    x = EXTRA[fder]
    return Ef[0] - x * dEF + dEF * np.arange(len(Ef) + 2 * x)


def make_user_formula():
    """a user-defined Formula (the API documented for StaticCalculator(Formula=...)): E_n * v_n,x"""
    from wannierberri.formula import Formula_ln
    from wannierberri.symmetry.point_symmetry import transform_ident

    class EnergyVelocity(Formula_ln):
        def __init__(self, data_K, **parameters):
            super().__init__(data_K, **parameters)
            self.E = data_K.E_K
            self.V = data_K.covariant('Ham', commader=1)
            self.ndim = 1
            self.transformTR = transform_ident
            self.transformInv = transform_ident

        def nn(self, ik, inn, out):
            return self.V.nn(ik, inn, out) * self.E[ik][inn][None, :, None]

        def ln(self, ik, inn, out):
            return self.V.ln(ik, inn, out) * self.E[ik][inn][None, :, None]

    return EnergyVelocity


def oracle(ctx, scale):
    ties_oracle(ctx, scale)
    systems_oracle(ctx, scale)


def systems_oracle(ctx, scale):
    from ..wbsys import rand_system, wb
    from wannierberri.calculators.static import StaticCalculator
    from wannierberri.calculators import static as st
    from wannierberri.formula import covariant as frml
    from wannierberri import factors
    from wannierberri.data_K import get_data_k_class_from_system
    rng = ctx.rng
    rs = np.random.RandomState(rng.getrandbits(31))
    User = make_user_formula()
    nsys = ctx.n(3, 40) * scale
    for isys in range(nsys):
        nw = int(rs.randint(1, 5))
        doubled = rng.random() < 0.4
        with quiet():
            s = rand_system(rs, num_wann=nw, nR=int(rs.randint(3, 8)), max_R=1, matrices=("Ham", "AA", "BB", "CC"))
            if doubled:
                s.double_spin()
        NB = s.num_wann
        NKFFT = [rng.choice([1, 2, 3]) for _ in range(3)]
        dK = [rng.uniform(0, 1) for _ in range(3)]
        with quiet():
            grid = wb.Grid(s, NK=NKFFT, NKFFT=NKFFT)
            dk = get_data_k_class_from_system(s)(s, grid=grid, dK=np.array(dK),
                                                  Kpoint=grid.get_K_list(use_symmetry=False)[0])
        nk = dk.nk
        ks = [np.array(dK) + np.array([i, j, l]) / np.array(NKFFT) for i in range(NKFFT[0]) for j in range(NKFFT[1])
              for l in range(NKFFT[2])]
        Eall = np.array(sorted([band_energies(s, k) for k in ks], key=lambda e: tuple(e)))
        EK = np.array(sorted(dk.E_K, key=lambda e: tuple(e)))
        sysinfo = dict(num_wann=nw, doubled=doubled, NKFFT=NKFFT, dK=dK,
                       note="system = wbsys.rand_system(RandomState from ctx.rng); Data_K built as in evaluate_k")
        if EK.shape != Eall.shape or np.abs(EK - Eall).max() > 1e-9:
            ctx.fail("band energies of Data_K differ from the direct Fourier sum (k-point set of the FFT grid)", sysinfo)
            continue
        lo, hi = Eall.min(), Eall.max()

        def fresh():
            with quiet():
                return get_data_k_class_from_system(s)(s, grid=grid, dK=np.array(dK),
                                                       Kpoint=grid.get_K_list(use_symmetry=False)[0])

        # ---------- 0. several calculators sharing one Data_K: the result of each must not depend on the others
        Ef, dEF, mode = gen_fermi(rng, lo, hi)
        th = rng.choice([1e-4, 0.05])
        ext = ext_grid(Ef, dEF, 1)
        case = dict(sysinfo, Efermi=Ef, degen_thresh=th, what="DOS(Ef) and CumDOS(Ef padded by one step) on one Data_K")
        with ctx.attempt("calculators sharing one Data_K, both orders", case):
            with quiet():
                dA = fresh()
                dosA = st.DOS(Efermi=Ef, degen_thresh=th)(dA).data           # surface first ...
                cumA = st.CumDOS(Efermi=ext, degen_thresh=th)(dA).data        # ... then sea with the same window
                dB = fresh()
                cumB = st.CumDOS(Efermi=ext, degen_thresh=th)(dB).data
                dosB = st.DOS(Efermi=Ef, degen_thresh=th)(dB).data
                cumC = st.CumDOS(Efermi=ext, degen_thresh=th)(fresh()).data   # alone
                dosC = st.DOS(Efermi=Ef, degen_thresh=th)(fresh()).data
            ctx.case(signature=("orders", isys, tuple(Ef), th), nontrivial=bool(np.any(Eall < ext[0])))
            ctx.count("oracle.shared_data_k.both_orders")
            if not (np.array_equal(cumA, cumC) and np.array_equal(cumB, cumC)):
                ctx.fail(f"CumDOS depends on the calculators evaluated before it on the same Data_K: after DOS "
                         f"{cumA.tolist()}, before DOS {cumB.tolist()}, alone {cumC.tolist()}", case)
            if not (np.array_equal(dosA, dosC) and np.array_equal(dosB, dosC)):
                ctx.fail(f"DOS depends on the calculators evaluated before it on the same Data_K: {dosA.tolist()} / "
                         f"{dosB.tolist()} / alone {dosC.tolist()}", case)
        # ---------- 0b. overall scalars and the hole-like flag (Identity formula: the k-average of a state count)
        vol = abs(np.linalg.det(s.real_lattice))
        cfac = rng.choice([1.0, -2.0, 0.37, 12.5])
        case = dict(sysinfo, Efermi=Ef, degen_thresh=th, constant_factor=cfac)
        with ctx.attempt("constant_factor / cell_volume / hole_like", case):
            with quiet():
                kw = dict(Efermi=Ef, Formula=frml.Identity, degen_thresh=th)
                r0 = StaticCalculator(fder=0, constant_factor=cfac, **kw)(dk).data
                rs_ = StaticCalculator(fder=0, constant_factor=cfac, use_factor=False, **kw)(dk).data
                rh = StaticCalculator(fder=0, constant_factor=cfac, hole_like=True, **kw)(dk).data
                r1 = StaticCalculator(fder=1, constant_factor=cfac, **kw)(dk).data
                r1h = StaticCalculator(fder=1, constant_factor=cfac, hole_like=True, **kw)(dk).data
            cnt = [sea_count(Eall, th, x) for x in Ef]
            ctx.case(signature=("scalars", isys, tuple(Ef), th, cfac), nontrivial=True)
            ctx.count("oracle.scalars")
            for j, (c_, margin) in enumerate(cnt):
                if margin > 1e-9 and abs(r0[j] - cfac * c_ / vol) > 1e-12 * (1 + NB) * abs(cfac) / vol:
                    ctx.fail(f"Fermi-sea result {r0[j]!r} != constant_factor * (k-average of the state count) / cell_volume"
                             f" = {cfac * c_ / vol!r}", case)
                    break
                if margin > 1e-9 and abs(rs_[j] - np.sign(cfac) * c_ / vol) > 1e-12 * (1 + NB) / vol:
                    ctx.fail(f"use_factor=False: {rs_[j]!r} != sign(constant_factor) * count / cell_volume", case)
                    break
            if not np.array_equal(rh, -r0):
                ctx.fail(f"hole_like Fermi-sea result (no tetrahedra) is not minus the electron-like one: {rh.tolist()} vs "
                         f"{r0.tolist()}", case)
            if not np.array_equal(r1, r1h):
                ctx.fail("hole_like changes a Fermi-surface (fder=1) result", case)
        # ---------- 0c. information only: non-uniform grids are OUTSIDE the property (the code assumes a uniform grid)
        if isys == 0:
            with quiet():
                Enu = np.array([lo - 1.0, lo - 0.9, hi + 1.0])
                cnu = st.CumDOS(Efermi=Enu)(dk).data
            ctx.note(f"non-uniform Fermi grid (outside the property, uniform grids only): Efermi={Enu.tolist()} gives "
                     f"CumDOS={cnu.tolist()} although all {NB} bands lie below the last level: the code bins with "
                     f"dEF=Efermi[1]-Efermi[0]")
            ctx.count("oracle.info.nonuniform_grid_probe")

        for rep in range(ctx.n(5, 20)):
            Ef, dEF, mode = gen_fermi(rng, lo, hi)
            th = rng.choice([1e-8, 1e-4, 1e-4, 0.05, 0.3])
            kr = doubled and rng.random() < 0.3
            common = dict(degen_thresh=th, degen_Kramers=kr)
            case = dict(sysinfo, Efermi=Ef, **common)
            ctx.count(f"oracle.grid.{mode}.n{len(Ef)}")
            inside = bool(np.any((Eall > Ef[0] - 2 * dEF) & (Eall < Ef[-1] + 2 * dEF)))
            # ---------- 1. step semantics of CumDOS / DOS, recomputed from the band energies
            with ctx.attempt("CumDOS/DOS on Data_K", case):
                with quiet():
                    cum = st.CumDOS(Efermi=Ef, **common)(dk).data
                    dos = st.DOS(Efermi=Ef, **common)(dk).data
                ctx.case(signature=("cumdos", isys, tuple(Ef), th, kr), nontrivial=inside)
                # Kramers grouping pairs bands (2i, 2i+1): for a spin-doubled system the blocks are the same as the
                # threshold blocks, because every level is an exact doublet
                ref = [sea_count(Eall, th, x) for x in Ef]
                for j, (r, margin) in enumerate(ref):
                    if margin > 1e-9 and abs(cum[j] - r) > 1e-12 * (1 + NB):
                        ctx.fail(f"CumDOS[{j}] = {cum[j]!r} but the k-average of the number of states in groups with mean "
                                 f"energy <= Ef = {r!r} (Ef={Ef[j]!r})", dict(case, cum=cum))
                        break
                if np.any(np.diff(cum) < -1e-12):
                    ctx.fail(f"CumDOS decreases along the Fermi grid: {cum.tolist()}", case)
                if np.any(np.abs(cum[Ef < lo - 1e-9]) > 0) or np.any(np.abs(cum[Ef > hi + 1e-9] - NB) > 1e-12 * NB):
                    ctx.fail(f"CumDOS is not 0 below / NB={NB} above all bands: {cum.tolist()}", case)
                ext = ext_grid(Ef, dEF, 1)
                refe = [sea_count(Eall, th, x) for x in ext]
                if min(m for _, m in refe) > 1e-9:
                    want = central_difference(1, np.array([r for r, _ in refe]), dEF)
                    if np.abs(dos - want).max() > 1e-11 * (1 + NB) / dEF:
                        ctx.fail(f"DOS {dos.tolist()} is not the central difference of the state count {want.tolist()}",
                                 dict(case, dos=dos))
            # ---------- 2. band selection (Fermi-surface calculators only): any order of the selection; the result is
            #               the sum of the single-band results and does not depend on the order; tetra on and off
            if rng.random() < 0.5 and NB > 1:
                sel = rand_selection(rng, NB, repeats=False, kmax=NB - 1)
                perm = list(sel)
                rng.shuffle(perm)
                with ctx.attempt("DOS(select_bands) on Data_K", dict(case, select_bands=sel)):
                    with quiet():
                        dsel = st.DOS(Efermi=Ef, select_bands=np.array(sel), **common)(dk).data
                    ext = ext_grid(Ef, dEF, 1)
                    refe = [sea_count(Eall, th, x, sel=sel) for x in ext]
                    ctx.case(signature=("dossel", isys, tuple(Ef), th, tuple(sel)), nontrivial=inside)
                    ctx.count("oracle.select." + ("ascending" if sel == sorted(sel) else "descending"
                                                  if sel == sorted(sel, reverse=True) else "unsorted"))
                    if min(m for _, m in refe) > 1e-9:
                        want = central_difference(1, np.array([r for r, _ in refe]), dEF)
                        if np.abs(dsel - want).max() > 1e-11 * (1 + NB) / dEF:
                            ctx.fail(f"DOS(select_bands={sel}) {dsel.tolist()} is not the central difference of the count "
                                     f"of selected states {want.tolist()}", dict(case, select_bands=sel))
                    for tetra in (False, True):
                        for fml, nm in ((frml.Identity, "Identity"), (frml.VelVel, "VelVel")):
                            kw = dict(Efermi=Ef, Formula=fml, fder=1, tetra=tetra, **common)
                            with quiet():
                                a = StaticCalculator(select_bands=np.array(sel), **kw)(dk).data
                                b = StaticCalculator(select_bands=np.array(perm), **kw)(dk).data
                                parts = sum(StaticCalculator(select_bands=np.array([b_]), **kw)(dk).data for b_ in sel)
                            tol = 1e-11 * (np.abs(parts).max() + np.abs(a).max() + 1e-300)
                            if np.abs(a - b).max() > tol:
                                ctx.fail(f"[{nm}, tetra={tetra}] the result depends on the ORDER of select_bands: {sel} -> "
                                         f"{np.ravel(a)[:4].tolist()}, {perm} -> {np.ravel(b)[:4].tolist()}",
                                         dict(case, select_bands=sel, permuted=perm, tetra=tetra, formula=nm))
                            if np.abs(a - parts).max() > tol:
                                ctx.fail(f"[{nm}, tetra={tetra}] select_bands={sel} is not the sum of the single-band results: "
                                         f"{np.ravel(a)[:4].tolist()} vs {np.ravel(parts)[:4].tolist()}",
                                         dict(case, select_bands=sel, tetra=tetra, formula=nm))
            # ---------- 3. fder = n  ==  n-th central difference of the sea calculator, real calculators / formulas
            families = [
                ("Identity", lambda **kw: st.CumDOS(**kw), {1: lambda **kw: st.DOS(**kw)}, frml.Identity, 1.0, True),
                ("Omega", lambda **kw: st.AHC(**kw), {}, frml.Omega, factors.factor_ahc, False),
                ("InvMass", lambda **kw: st.Ohmic_FermiSea(**kw), {}, frml.InvMass, factors.factor_ohmic, False),
                ("VelVel", None, {1: lambda **kw: st.Ohmic_FermiSurf(**kw)}, frml.VelVel, factors.factor_ohmic, False),
                ("Morb_Hpm(non-additive)", None, {}, frml.Morb_Hpm, 1.0, False),
                ("user Formula", None, {}, User, 2.5, False),
            ]
            for name, sea_cls, surf_cls, Fml, cf, times_vol in families:
              for fder in (1, 2, 3):
                  ext = ext_grid(Ef, dEF, fder)
                  c = dict(case, formula=name, fder=fder)
                  with ctx.attempt(f"fder={fder} vs central difference of the sea calculator [{name}]", c):
                      with quiet():
                          if sea_cls is not None:
                              sea = sea_cls(Efermi=ext, **common)(dk).data
                          else:
                              sea = StaticCalculator(Efermi=ext, Formula=Fml, fder=0, constant_factor=cf, **common)(dk).data
                          if fder in surf_cls:
                              surf = surf_cls[fder](Efermi=Ef, **common)(dk).data
                          else:
                              surf = StaticCalculator(Efermi=Ef, Formula=Fml, fder=fder, constant_factor=cf, **common)(dk).data
                              if times_vol:
                                  surf = surf * dk.cell_volume
                      want = central_difference(fder, sea, dEF)
                      ctx.case(signature=("fd", isys, name, fder, tuple(Ef), th), nontrivial=inside)
                      ctx.count(f"oracle.fd.{name}.fder{fder}")
                      tol = 1e-10 * (np.abs(sea).max() + 1e-300) / dEF ** fder
                      if surf.shape != want.shape or np.abs(surf - want).max() > tol:
                          ctx.fail(f"[{name}] fder={fder} result differs from the {fder}-th central difference of the Fermi-sea "
                                   f"calculator on the extended grid by {np.abs(surf - want).max():.3g} (tol {tol:.3g}); "
                                   f"surf={np.ravel(surf)[:6].tolist()} fd={np.ravel(want)[:6].tolist()}", c)
            # ---------- 4. k-resolved mean = unresolved
            name, sea_cls, surf_cls, Fml, cf, times_vol = families[rng.randrange(len(families))]
            for fder in (0, rng.choice([1, 2, 3])):
                for tetra in ((False, True) if rep == 0 else (False,)):
                    c = dict(case, formula=name, fder=fder, tetra=tetra)
                    with ctx.attempt(f"k_resolved vs unresolved [{name}]", c):
                        with quiet():
                            kw = dict(Efermi=Ef, Formula=Fml, fder=fder, constant_factor=cf, tetra=tetra, **common)
                            a = StaticCalculator(k_resolved=True, **kw)(dk).data
                            b = StaticCalculator(k_resolved=False, **kw)(dk).data
                        ctx.case(signature=("kres", isys, name, fder, tetra, tuple(Ef)), nontrivial=inside)
                        ctx.count(f"oracle.kres.fder{fder}.{'tetra' if tetra else 'plain'}")
                        if a.shape != (nk,) + b.shape:
                            ctx.fail(f"k-resolved result has shape {a.shape}, expected {(nk,) + b.shape}", c)
                        elif np.abs(a.mean(axis=0) - b).max() > 1e-12 * (np.abs(a).max() + 1e-300) + 1e-300:
                            ctx.fail(f"mean over k of the k-resolved result differs from the unresolved one by "
                                     f"{np.abs(a.mean(axis=0) - b).max():.3g} (fder={fder}, tetra={tetra})", c)
        # ---------- 5. the same through run() on a grid (EnergyResult.data)
        if isys % 2 == 0:
            Ef, dEF, mode = gen_fermi(rng, lo, hi)
            th = rng.choice([1e-4, 0.05])
            NK = [rng.choice([2, 3]) for _ in range(3)]
            case = dict(sysinfo, NK=NK, Efermi=Ef, degen_thresh=th, via="run()")
            with ctx.attempt("run(CumDOS, DOS, AHC, Omega fder=1)", case):
                ext = ext_grid(Ef, dEF, 1)
                with quiet():
                    g = wb.Grid(s, NK=NK, NKFFT=[rng.choice([d for d in (1, 2, 3) if n % d == 0]) for n in NK])
                    # dict order = evaluation order on every Data_K: the surface calculators come FIRST, then the sea
                    # calculators whose window [Ef[0]-dE, Ef[-1]+dE] is the same
                    res = wb.run(s, g, calculators={
                        "dos": st.DOS(Efermi=Ef, degen_thresh=th),
                        "ahc1": StaticCalculator(Efermi=Ef, Formula=frml.Omega, fder=1, constant_factor=factors.factor_ahc,
                                                 degen_thresh=th),
                        "cumx": st.CumDOS(Efermi=ext, degen_thresh=th),
                        "ahcx": st.AHC(Efermi=ext, degen_thresh=th),
                        "cum": st.CumDOS(Efermi=Ef, degen_thresh=th)},
                        parallel=False, use_irred_kpt=False, symmetrize=False, print_Kpoints=False, adpt_num_iter=0,
                    fout_name=os.path.join(ctx.work, "result"))
                kk = [np.array([i / NK[0], j / NK[1], l / NK[2]]) for i in range(NK[0]) for j in range(NK[1])
                      for l in range(NK[2])]
                Eg = np.array([band_energies(s, k) for k in kk])
                cum = res.results["cum"].data
                ctx.case(signature=("run", isys, tuple(NK), tuple(Ef)), nontrivial=True)
                ctx.count("oracle.run")
                for j, x in enumerate(Ef):
                    r, margin = sea_count(Eg, th, x)
                    if margin > 1e-9 and abs(cum[j] - r) > 1e-11 * (1 + NB):
                        ctx.fail(f"run(): CumDOS[{j}] = {cum[j]!r}, k-average of the state count = {r!r}", dict(case, cum=cum))
                        break
                cumx = res.results["cumx"].data
                for j, x in enumerate(ext):
                    r, margin = sea_count(Eg, th, x)
                    if margin > 1e-9 and abs(cumx[j] - r) > 1e-11 * (1 + NB):
                        ctx.fail(f"run(): CumDOS on the padded grid (evaluated after DOS on the same Data_K) [{j}] = "
                                 f"{cumx[j]!r}, k-average of the state count = {r!r}", dict(case, cumx=cumx))
                        break
                w1 = central_difference(1, res.results["cumx"].data, dEF)
                if np.abs(res.results["dos"].data - w1).max() > 1e-10 * (1 + NB) / dEF:
                    ctx.fail("run(): DOS is not the central difference of CumDOS on the extended grid", case)
                w2 = central_difference(1, res.results["ahcx"].data, dEF)
                if np.abs(res.results["ahc1"].data - w2).max() > 1e-10 * (np.abs(res.results["ahcx"].data).max() + 1e-300) / dEF:
                    ctx.fail("run(): Omega with fder=1 is not the central difference of AHC on the extended grid", case)


def ties_oracle(ctx, scale):
    """exact ties: the REAL CumDOS / DOS classes (Identity formula) on duck-typed Data_K with dyadic band energies and
    dyadic Fermi grids whose points coincide exactly with group energies; reference in exact rationals, written from
    the property statement (states in groups with mean energy <= Ef, groups counted whole)"""
    from wannierberri.calculators import static as st
    FakeDK, _ = fake_classes()
    rng = ctx.rng

    def count(Es, th, x, sel=None):
        tot = Fr(0)
        for E in Es:
            a = 0
            for i in range(1, len(E) + 1):
                if i == len(E) or E[i] - E[i - 1] > th:
                    if sum(E[a:i], Fr(0)) / (i - a) <= x:
                        tot += (i - a) if sel is None else sum(1 for s_ in sel if a <= s_ < i)
                    a = i
        return tot / len(Es)

    for it in range(ctx.n(150, 1500) * scale):
        nk = rng.choice([1, 2, 4])
        nb = rng.randint(1, 6)
        Es = []
        th = None
        for ik in range(nk):
            E, th0 = gen_bands(rng, nmax=nb)
            th = th or th0
            while len(E) < nb:
                E.append(E[-1] + rng.choice([Fr(0), th / 2, Fr(1, 4), Fr(1)]))
            # groups of 3 have non-dyadic means: keep multiplets of size 1, 2, 4 so that every mean is exact in floats
            Es.append(E)
        ok = True
        for E in Es:
            a = 0
            for i in range(1, nb + 1):
                if i == nb or E[i] - E[i - 1] > th:
                    if (i - a) not in (1, 2, 4):
                        ok = False
                    a = i
        if not ok:
            continue
        Ef = gen_grid(rng, [sum(E[:2], Fr(0)) / len(E[:2]) for E in Es] + Es[0])
        d = (Ef[1] - Ef[0]) if len(Ef) > 1 else Fr(1, 1000)
        single = len(Ef) == 1   # 0.001 is not dyadic: for a single Fermi level only the Fermi-sea (CumDOS) part is exact
        fk = FakeDK([[float(e) for e in E] for E in Es])
        Ef_f = np.array([float(x) for x in Ef])
        sel = None
        if rng.random() < 0.3 and nb > 1:
            sel = rand_selection(rng, nb, kmax=nb - 1)
        case = dict(E=fk.E_K, Efermi=Ef_f, degen_thresh=float(th), select_bands=sel,
                    note="duck-typed Data_K (E_K, nk, num_wann, cell_volume=1) passed to the real calculators")
        with ctx.attempt("CumDOS/DOS with Fermi levels exactly on group energies", case):
            with quiet():
                cum = st.CumDOS(Efermi=Ef_f, degen_thresh=float(th))(fk).data
                dos = st.DOS(Efermi=Ef_f, degen_thresh=float(th),
                             select_bands=None if sel is None else np.array(sel))(fk).data
            tie = any(sum(E[a:b], Fr(0)) / (b - a) == x for E in Es for a in range(nb) for b in range(a + 1, nb + 1)
                      for x in Ef + [Ef[0] - d, Ef[-1] + d])
            ctx.case(signature=("ties", tuple(map(tuple, Es)), tuple(Ef), th, None if sel is None else tuple(sel)),
                     nontrivial=tie)
            ctx.count("oracle.ties.exact_tie" if tie else "oracle.ties.no_tie")
            want = [count(Es, th, x) for x in Ef]
            if any(abs(float(w) - c) > 1e-12 * (1 + nb) for w, c in zip(want, cum)):
                ctx.fail(f"CumDOS {cum.tolist()} differs from the k-average of the number of states in groups with mean "
                         f"energy <= Ef {[float(w) for w in want]} (Fermi levels exactly on group energies)", case)
            if single:
                ctx.count("oracle.ties.single_level")
                continue
            ext = [Ef[0] - d] + Ef + [Ef[-1] + d]
            ce = [count(Es, th, x, sel=sel) for x in ext]
            wd = [float((ce[j + 2] - ce[j]) / (2 * d)) for j in range(len(Ef))]
            if any(abs(w - c) > 1e-11 * (1 + nb) / float(d) for w, c in zip(wd, dos)):
                ctx.fail(f"DOS{'' if sel is None else f'(select_bands={sel})'} {dos.tolist()} differs from the central "
                         f"difference of the state count {wd} (Fermi levels exactly on group energies)", case)


def replay(ctx, case):
    for fl in case.get("failures", [])[:3]:
        print("recorded:", fl.get("what", "")[:300])
        print("  case:", str(fl.get("case"))[:1200])
    oracle(ctx, 1)
