"""C22 - finite-difference b-vectors: completeness, +-b closure, whole shells, neighbour relation."""
import contextlib
import io
import itertools
import math
import numpy as np
from fractions import Fraction as Fr

from ..common import rat, rats, ratss, ints, intss, quiet, F

PID = "C22"
CLAIM = dict(
    design="3/C22",
    technique="Lean 4 proof over exact models of find_G_and_neighbours, k_to_shells (equal-length classes of the "
              "symmetric search box), the guard/expansion of get_shell_weights and the shell loop of find_bk_vectors "
              "with the SVD solve and the parallel test as ABSTRACT kernels + exact differential correspondence "
              "(neighbour tables, shells, flat (w,b) lists, trace-driven loop) + property oracle on the real "
              "from_kpoints with exact rational reference arithmetic (Gram matrix, Fractions)",
    text="Theorems (all mesh sizes, all k orders, all b lists, every basis): a returned neighbour nb and shift G satisfy "
         "k + b = k[nb] + G*mp_grid, nb is the first such index and - for pairwise incongruent k-points - the only "
         "solution; for every complete Gamma-centred mesh in any order a neighbour exists for every k and every b "
         "(no RuntimeError); shells of the search box are disjoint, cover every non-zero vector exactly once, consist of "
         "equal-length vectors, are ordered by strictly increasing length and are closed under b -> -b; the flat list "
         "returned by get_shell_weights carries one weight per shell, lists whole shells, and its sum_b w_b b_i b_j is "
         "exactly the checked array, hence within bk_complete_tol (Frobenius) of delta_ij on every successful return; "
         "when the residual is zero the relation is exact, and with exact completeness the finite-difference gradient "
         "of every linear function is exact; find_bk_vectors - for ANY behaviour of "
         "the SVD solve and of the parallel test - returns only whole shells of the box, in order of increasing length, "
         "closed under negation with equal weights, having passed the completeness guard for exactly the returned set.",
    note="_partial / not modelled: existence of a complete shell set and its minimality (SVD solve and is_parallel_shell "
         "are abstract kernels) - the oracle shows the real search FAILS for some valid lattice+mesh pairs (known "
         "finding C22-bk-search-fails); 'whole shells' is proved relative to the search box (+-search_supercell*mp_grid), "
         "the oracle checks it against ALL mesh vectors with exact arithmetic and finds shells cut by the box for "
         "anisotropic cells with coarse meshes (known finding C22-shell-cut-by-search-box); kmesh_tol is modelled as exact "
         "equality (generators keep distinct lengths > 1e-4 apart).",
)
TRUSTED = [
    "modelled: find_G_and_neighbours, k_to_shells, the search box, get_shell_weights (guard + expansion), the shell loop "
    "of find_bk_vectors",
    "abstract kernels (not modelled): numpy.linalg.svd pseudo-inverse giving the shell weights, is_parallel_shell / "
    "get_projector_shell_cart, np.argsort (order inside a shell is canonicalised), np.linalg.norm",
    "kmesh_tol (1e-7) is modelled as exact equality of squared lengths; bk_complete_tol is compared on squared norms",
    "oracle reference: exact Fractions / integer Gram-matrix arithmetic, independent of the model",
]
RULE = ("corr: neighbour tables for shuffled / duplicated / incomplete / unreduced meshes and random b lists; shells of "
        "rational bases; get_shell_weights on shell prefixes; trace-driven find_bk_vectors.  oracle: from_kpoints on "
        "rational lattices of all Bravais types (axes permuted / sign flipped), meshes 1..6 per direction incl. strongly "
        "anisotropic ones, shuffled k order, kptirr subsets, search_supercell 2/3.  non-trivial = mesh with more than "
        "one k-point or a non-cubic lattice; distinct = distinct (op, lattice, mesh, k order)")

KF_SEARCH = "C22-bk-search-fails"
KF_BOX = "C22-shell-cut-by-search-box"


# ------------------------------------------------------------------------------------------------
# lattices (exact)

def bravais(rng):
    """returns (name, L) with L a 3x3 list of Fractions or None for hexagonal (irrational Cartesian coordinates);
    for every type the Gram matrix L L^T is rational and is returned as well"""
    q = lambda: Fr(rng.choice([4, 5, 6, 8, 10, 12, 7, 9]), 4)
    a, b, c = q(), q(), q()
    while len({a, b, c}) < 3:
        a, b, c = q(), q(), q()
    t = rng.choice(["cub", "tet", "ort", "fcc", "bcc", "bct", "mono", "tric", "rhom", "base", "hex", "fco"])
    sh = Fr(rng.choice([1, 2, 3]), 8)
    if t == "cub":
        L = [[a, 0, 0], [0, a, 0], [0, 0, a]]
    elif t == "tet":
        L = [[a, 0, 0], [0, a, 0], [0, 0, c]]
    elif t == "ort":
        L = [[a, 0, 0], [0, b, 0], [0, 0, c]]
    elif t == "fcc":
        L = [[0, a, a], [a, 0, a], [a, a, 0]]
    elif t == "fco":
        L = [[0, b, c], [a, 0, c], [a, b, 0]]
    elif t == "bcc":
        L = [[-a, a, a], [a, -a, a], [a, a, -a]]
    elif t == "bct":
        L = [[-a, a, c], [a, -a, c], [a, a, -c]]
    elif t == "mono":
        L = [[a, 0, 0], [0, b, 0], [c * sh, 0, c]]
    elif t == "tric":
        L = [[a, 0, 0], [b * sh, b, 0], [c * Fr(1, 8), c * Fr(3, 8), c]]
    elif t == "rhom":
        L = [[a, a * sh, a * sh], [a * sh, a, a * sh], [a * sh, a * sh, a]]
    elif t == "base":
        L = [[a, b, 0], [-a, b, 0], [0, 0, c]]
    elif t == "hex":
        L = None
    if L is None:
        gram = [[a * a, -a * a / 2, 0], [-a * a / 2, a * a, 0], [0, 0, c * c]]
        Lf = np.array([[float(a), 0, 0], [-float(a) / 2, float(a) * math.sqrt(3) / 2, 0], [0, 0, float(c)]])
        return t, None, gram, Lf
    L = [[Fr(x) for x in row] for row in L]
    gram = [[sum(L[i][k] * L[j][k] for k in range(3)) for j in range(3)] for i in range(3)]
    return t, L, gram, np.array([[float(x) for x in row] for row in L])


def relabel(rng, L, gram, Lf):
    """permute the lattice vectors and the Cartesian axes, flip signs: the same lattice, differently presented"""
    p = list(range(3)); rng.shuffle(p)
    sg = [rng.choice([1, -1]) for _ in range(3)]
    cp = list(range(3)); rng.shuffle(cp)
    gram2 = [[gram[p[i]][p[j]] * sg[i] * sg[j] for j in range(3)] for i in range(3)]
    Lf2 = np.array([[Lf[p[i]][cp[j]] * sg[i] for j in range(3)] for i in range(3)])
    L2 = None if L is None else [[L[p[i]][cp[j]] * sg[i] for j in range(3)] for i in range(3)]
    return L2, gram2, Lf2


def inv3(M):
    """exact inverse of a 3x3 Fraction matrix"""
    (a, b, c), (d, e, f), (g, h, i) = M
    det = a * (e * i - f * h) - b * (d * i - f * g) + c * (d * h - e * g)
    adj = [[e * i - f * h, c * h - b * i, b * f - c * e],
           [f * g - d * i, a * i - c * g, c * d - a * f],
           [d * h - e * g, b * g - a * h, a * e - b * d]]
    return [[x / det for x in row] for row in adj]


def mesh_gram_int(gram, N):
    """integer matrix proportional to the Gram matrix of the mesh basis  recip/N :  G' = D^-1 (L L^T)^-1 D^-1"""
    gi = inv3(gram)
    Gp = [[gi[i][j] / (N[i] * N[j]) for j in range(3)] for i in range(3)]
    den = 1
    for row in Gp:
        for x in row:
            den = den * x.denominator // math.gcd(den, x.denominator)
    Gint = np.array([[int(x * den) for x in row] for row in Gp], dtype=object)
    return Gint, den, Gp


# ------------------------------------------------------------------------------------------------
# correspondence

def nb_string(G, neighbours, kptirr):
    rows = []
    for ik in kptirr:
        rows.append(";".join(f"{int(n)}:{int(g[0])},{int(g[1])},{int(g[2])}" for n, g in zip(neighbours[ik], G[ik])) or "_")
    return "/".join(rows) if rows else "_"


def corr_neighbours(ctx, lines, expect, cases):
    from wannierberri.w90files.bkvectors import BKVectors
    rng = ctx.rng
    for it in range(ctx.n(100, 1200)):
        N = tuple(rng.choice([1, 1, 2, 2, 3, 4, 5]) for _ in range(3))
        ks = [(i, j, l) for i in range(N[0]) for j in range(N[1]) for l in range(N[2])]
        cls = rng.choice(["mesh", "mesh", "mesh", "dup", "incomplete", "unreduced", "mixed"])
        if cls in ("dup", "mixed"):
            ks = ks + [rng.choice(ks) for _ in range(rng.randint(1, 3))]
        if cls in ("incomplete", "mixed") and len(ks) > 1:
            ks.pop(rng.randrange(len(ks)))
        if cls in ("unreduced", "mixed"):
            ks = [tuple(c + n * rng.choice([0, 0, 1, -1, 2]) for c, n in zip(k, N)) for k in ks]
        rng.shuffle(ks)
        nb = rng.randint(1, 6)
        bs = [tuple(rng.randint(-2 * n - 1, 2 * n + 1) for n in N) for _ in range(nb)]
        if rng.random() < 0.5:
            bs = bs + [tuple(-x for x in b) for b in bs]
        kptirr = list(range(len(ks)))
        if rng.random() < 0.3:
            kptirr = sorted(rng.sample(kptirr, rng.randint(1, len(ks))))
        kred = np.array(ks, dtype=float) / np.array(N, dtype=float)[None, :]
        ctx.count(f"corr.nb.{cls}")
        case = dict(fn="find_G_and_neighbours", N=N, k_int=ks, bk_grid=bs, kptirr=kptirr)
        try:
            with quiet():
                G, nbs = BKVectors.find_G_and_neighbours(kred, np.array(bs), np.array(N), kptirr=kptirr)
            e = nb_string(G, nbs, kptirr)
        except RuntimeError as ex:
            e = "none" if "Could not find a neighbour" in str(ex) else "RuntimeError:" + str(ex)[:50]
        except Exception as ex:  # noqa
            ctx.fail(f"find_G_and_neighbours raised {type(ex).__name__}: {str(ex)[:150]}", case)
            continue
        lines.append(f"nb {ints(N)} {intss(ks)} {intss(bs)} {ints(kptirr)}")
        expect.append(e)
        cases.append(case)


def exact_cart(B, n):
    return tuple(sum(n[i] * B[i][c] for i in range(3)) for c in range(3))


def rational_basis(rng):
    """a rational mesh basis (rows) with well separated distinct lengths"""
    while True:
        t, L, gram, Lf = bravais(rng)
        if L is not None:
            break
    L, gram, Lf = relabel(rng, L, gram, Lf)
    # a rational 'reciprocal lattice' : inverse transpose of L (the factor 2 pi is irrelevant for the modelled logic)
    Li = inv3(L)
    R = [[Li[j][i] for j in range(3)] for i in range(3)]
    return t, R


def lengths_separated(B, latt, margin=1e-4):
    ls = sorted({sum(c * c for c in exact_cart(B, n)) for n in latt})
    ls = [math.sqrt(float(x)) for x in ls]
    return all(b - a > margin for a, b in zip(ls, ls[1:]))


def shells_canon(shell_klatt, limit):
    return ";".join("|".join(f"{a},{b},{c}" for a, b, c in sorted(tuple(int(x) for x in v) for v in S))
                    for S in shell_klatt[:limit]) or "_"


def corr_shells_weights(ctx, lines, expect, cases):
    from wannierberri.w90files.bkvectors import BKVectors
    rng = ctx.rng
    tol = Fr(1e-5)
    for it in range(ctx.n(30, 400)):
        t, R = rational_basis(rng)
        N = tuple(rng.choice([1, 2, 2, 3, 4]) for _ in range(3))
        B = [[R[i][c] / N[i] for c in range(3)] for i in range(3)]
        m = rng.choice([1, 2, 2, 3])
        latt = [(i, j, l) for i in range(-m, m + 1) for j in range(-m, m + 1) for l in range(-m, m + 1)]
        if rng.random() < 0.3:     # an arbitrary (asymmetric) subset: k_to_shells itself does not need symmetry
            latt = rng.sample(latt, rng.randint(3, len(latt)))
        if not lengths_separated(B, latt):
            ctx.count("corr.shells.skipped_near_degenerate")
            continue
        kl = np.array(latt, dtype=int)
        kc = np.array([[float(c) for c in exact_cart(B, n)] for n in latt])
        ctx.count(f"corr.shells.{t}")
        with quiet():
            s_latt, s_cart = BKVectors.k_to_shells(kl, kc)
        limit = 12
        lines.append(f"shells {ratss(B)} {intss(latt)} {limit}")
        expect.append(shells_canon(s_latt, limit))
        cases.append(dict(fn="k_to_shells", basis=[[str(x) for x in r] for r in B], k_latt=latt))
        # get_shell_weights on prefixes of the shell list
        for npre in range(1, min(5, len(s_latt)) + 1):
            sl, sc = s_latt[:npre], s_cart[:npre]
            with quiet():
                try:
                    res = BKVectors.get_shell_weights(sl, sc, bk_complete_tol=1e-5, msg_if_fail=True)
                except Exception as ex:  # noqa
                    res = "exception " + type(ex).__name__
            if isinstance(res, str):
                if res != "incomplete shells":
                    ctx.count("corr.weights." + res.split(" ")[0])
                    continue
                # weights of the failed attempt are not observable: any weights leave a residual above the tolerance;
                # use an independent least-squares solution
                A = np.array([c.T.dot(c).reshape(9) for c in sc]).T
                ws = list(np.linalg.lstsq(A, np.eye(3).reshape(9), rcond=None)[0])
                e = "incomplete"
            else:
                wk, bc, bg = res
                ws, pos = [], 0
                for S in sl:
                    ws.append(wk[pos]); pos += len(S)
                e = "ok " + ";".join(f"{rat(F(w))}:{int(b[0])},{int(b[1])},{int(b[2])}" for w, b in zip(wk, bg))
            ctx.count("corr.weights." + e.split(" ")[0])
            shells_tok = ";".join("|".join(f"{int(v[0])},{int(v[1])},{int(v[2])}" for v in S) for S in sl)
            lines.append(f"weights {ratss(B)} {rats([F(w) for w in ws])} {shells_tok} {rat(tol)}")
            expect.append(e)
            cases.append(dict(fn="get_shell_weights", basis=[[str(x) for x in r] for r in B],
                              shells=[np.array(S).tolist() for S in sl], weights=[float(w) for w in ws]))


def traced_find_bk(recip, N, s):
    """run the real find_bk_vectors recording the outcomes of its two kernels per shell"""
    from wannierberri.w90files import bkvectors as bkmod
    par_T, zsv_T, w_T = [], [], []
    orig_par = bkmod.is_parallel_shell
    orig_gsw = bkmod.BKVectors.get_shell_weights.__func__

    def par_wrap(projector_list_cart, shell_new, tol=1e-5):
        r = bool(orig_par(projector_list_cart, shell_new, tol=tol))
        par_T.append(1 if r else 0); zsv_T.append(0); w_T.append([Fr(0)])
        return r

    def gsw_wrap(cls, shell_klatt, shell_kcart, bk_complete_tol=1e-5, msg_if_fail=False):
        res = orig_gsw(cls, shell_klatt, shell_kcart, bk_complete_tol=bk_complete_tol, msg_if_fail=msg_if_fail)
        if isinstance(res, str):
            if res == "zero singular value":
                zsv_T[-1] = 1
            else:
                A = np.array([c.T.dot(c).reshape(9) for c in shell_kcart]).T
                w_T[-1] = [F(w) for w in np.linalg.lstsq(A, np.eye(3).reshape(9), rcond=None)[0]]
        else:
            wk = res[0]
            ws, pos = [], 0
            for S in shell_klatt:
                ws.append(F(wk[pos])); pos += len(S)
            w_T[-1] = ws
        return res

    bkmod.is_parallel_shell = par_wrap
    bkmod.BKVectors.get_shell_weights = classmethod(gsw_wrap)
    try:
        with quiet():
            try:
                wk, bc, bg = bkmod.BKVectors.find_bk_vectors(recip, np.array(N), search_supercell=s)
                out = (wk, bg)
            except RuntimeError as ex:
                if "Could not find a complete set" not in str(ex):
                    raise
                out = None
    finally:
        bkmod.is_parallel_shell = orig_par
        bkmod.BKVectors.get_shell_weights = classmethod(orig_gsw)
    return out, par_T, zsv_T, w_T


def flat_canon(pairs):
    """(sequence of weights, sorted (b, w) pairs)"""
    return (";".join(w for w, b in pairs), ";".join(f"{b}={w}" for w, b in sorted(pairs, key=lambda p: p[1])))


def corr_findbk(ctx, lines, expect, cases, post):
    rng = ctx.rng
    for it in range(ctx.n(8, 60)):
        t, R = rational_basis(rng)
        N = tuple(rng.choice([1, 1, 2, 2, 3]) for _ in range(3))
        s = rng.choice([1, 2, 2])
        B = [[R[i][c] / N[i] for c in range(3)] for i in range(3)]
        latt = [(i, j, l) for i in range(-s * N[0], s * N[0] + 1) for j in range(-s * N[1], s * N[1] + 1)
                for l in range(-s * N[2], s * N[2] + 1)]
        if not lengths_separated(B, latt):
            ctx.count("corr.findbk.skipped_near_degenerate")
            continue
        recip = np.array([[float(x) for x in row] for row in R])
        out, par_T, zsv_T, w_T = traced_find_bk(recip, N, s)
        ctx.count(f"corr.findbk.{t}")
        ctx.count("corr.findbk.found" if out is not None else "corr.findbk.search_failed")
        if out is None:
            e = None
        else:
            wk, bg = out
            e = flat_canon([(rat(F(w)), f"{int(b[0])},{int(b[1])},{int(b[2])}") for w, b in zip(wk, bg)])
        lines.append(f"findbk {ratss(B)} {ints(N)} {s} {rat(Fr(1e-5))} {ints(par_T)} {ints(zsv_T)} {ratss(w_T)}")
        expect.append(e)
        cases.append(dict(fn="find_bk_vectors", recip=[[str(x) for x in r] for r in R], N=N, search_supercell=s,
                          shells_visited=len(par_T)))
        post[len(lines) - 1] = "findbk"


def corr(ctx):
    lines, expect, cases, post = [], [], [], {}
    corr_neighbours(ctx, lines, expect, cases)
    n0 = len(lines)
    with ctx.attempt("k_to_shells / get_shell_weights on correspondence inputs", dict(seed=ctx.seed, tier=ctx.tier)):
        corr_shells_weights(ctx, lines, expect, cases)
    del lines[min(len(lines), len(expect), len(cases)):], expect[len(lines):], cases[len(lines):]
    with ctx.attempt("find_bk_vectors (traced) on correspondence inputs", dict(seed=ctx.seed, tier=ctx.tier)):
        corr_findbk(ctx, lines, expect, cases, post)
    del lines[min(len(lines), len(expect), len(cases)):], expect[len(lines):], cases[len(lines):]
    out = ctx.lean(lines)
    for i, (l, o, e, c) in enumerate(zip(lines, out, expect, cases)):
        ctx.case(signature=l[:3000], nontrivial=True)
        if post.get(i) == "findbk":
            if o == "none":
                oc = None
            elif o.startswith("ok "):
                oc = flat_canon([tuple(p.split(":")) for p in o[3:].split(";")])
            else:
                oc = o
            if oc != e:
                ctx.mismatch(f"find_bk_vectors (trace driven): model={str(oc)[:300]} code={str(e)[:300]}", dict(case=c))
            continue
        if o != e:
            ctx.mismatch(f"{c['fn']}: model={o[:300]} code={e[:300]}", dict(line=l[:1500], case=c))
    for i in (0, len(lines) - 1):
        ctx.sample(dict(protocol_line=lines[i][:300], model=out[i][:200], code=str(expect[i])[:200]))


# ------------------------------------------------------------------------------------------------
# property-level oracle on the real code

def oracle_case(ctx, rng, t, L, gram, Lf, N, opts):
    from wannierberri.w90files.bkvectors import BKVectors
    recip = 2 * np.pi * np.linalg.inv(Lf).T
    ks = [(Fr(i, N[0]), Fr(j, N[1]), Fr(l, N[2])) for i in range(N[0]) for j in range(N[1]) for l in range(N[2])]
    order = rng.choice(["C", "shuffled", "shuffled", "reversed"])
    if order == "shuffled":
        rng.shuffle(ks)
    elif order == "reversed":
        ks.reverse()
    kred = np.array([[float(c) for c in k] for k in ks])
    NK = len(ks)
    kptirr = None
    if opts.get("kptirr"):
        kptirr = sorted(rng.sample(range(NK), rng.randint(1, NK)))
    s = opts.get("search_supercell", 2)
    case = dict(lattice_type=t, real_lattice=Lf.tolist(), mp_grid=N, k_order=order, kptirr=kptirr, search_supercell=s,
                kpoints_red=kred.tolist() if NK <= 64 else f"{NK} points ({order})")
    ctx.case(signature=("bk", t, tuple(map(tuple, Lf.round(9).tolist())), N, order, s, tuple(kptirr or ())),
             nontrivial=(NK > 1 or t != "cub"))
    ctx.count(f"oracle.lattice.{t}")
    ctx.count(f"oracle.mesh.{'iso' if len(set(N)) == 1 else 'aniso'}")
    try:
        with quiet():
            bkv = BKVectors.from_kpoints(recip_lattice=recip, mp_grid=np.array(N), kpoints_red=kred, kptirr=kptirr,
                                         search_supercell=s)
    except RuntimeError as ex:
        if "Could not find a complete set of bk vectors" in str(ex):
            ctx.count("oracle.search_failed")
            ctx.fail(f"find_bk_vectors raised for the valid input lattice={t} mesh={N}: {str(ex)[:90]}", case, kf=KF_SEARCH)
            return
        ctx.fail(f"from_kpoints raised RuntimeError: {str(ex)[:200]}", case)
        return
    except Exception as ex:  # noqa
        ctx.fail(f"from_kpoints raised {type(ex).__name__}: {str(ex)[:200]}", case)
        return
    wk = np.array(bkv.wk)
    bg = np.array(bkv.bk_grid)
    bc = np.array(bkv.bk_cart)
    nnb = len(wk)
    ctx.count(f"oracle.nnb={nnb}")
    bt = [tuple(int(x) for x in b) for b in bg]
    case = dict(case, wk=wk.tolist(), bk_grid=bg.tolist())
    # ---- (0) the Cartesian b-vectors are the mesh vectors
    bc_ref = bg @ (recip / np.array(N, dtype=float)[:, None])
    if np.abs(bc - bc_ref).max() > 1e-12 * np.abs(recip).max():
        ctx.fail("bk_cart is not bk_grid @ (recip_lattice / mp_grid)", case)
    # ---- (1) completeness  sum_b w_b b_i b_j = delta_ij
    M = sum(w * np.outer(b, b) for w, b in zip(wk, bc_ref))
    # tolerance: rounding of the pseudo-inverse solve = eps * cond(shell matrix) * (number of terms), floor 1e-12
    shells = {}
    for w, b in zip(wk, bc_ref):
        shells.setdefault(float(w), []).append(b)
    A = np.array([sum(np.outer(b, b) for b in S).reshape(9) for S in shells.values()])
    sv = np.linalg.svd(A, compute_uv=False)
    cond = sv.max() / max(sv.min(), 1e-300)
    tolc = 1e-12 + 2.3e-16 * cond * 50 * max(1.0, np.abs(wk).max() * np.abs(bc_ref).max() ** 2)
    err = np.abs(M - np.eye(3)).max()
    if not err <= tolc:
        ctx.fail(f"completeness violated: max|sum w b b - 1| = {err:.3e} > {tolc:.1e} (lattice {t}, mesh {N})",
                 dict(case, sum_wbb=M.tolist()))
    # ---- (2) closed under b -> -b with equal weights; no repeated b
    if len(set(bt)) != nnb:
        ctx.fail("a b-vector is listed twice", case)
    wmap = dict(zip(bt, wk))
    for b in bt:
        mb = tuple(-x for x in b)
        if mb not in wmap:
            ctx.fail(f"b-vectors not closed under negation: {b} present, {mb} absent", case)
            break
        if wmap[mb] != wmap[b]:
            ctx.fail(f"weights of b and -b differ: {wmap[b]!r} vs {wmap[mb]!r}", case)
            break
    # ---- (3) whole shells of ALL mesh vectors (exact integer arithmetic with the Gram matrix)
    Gint, den, Gp = mesh_gram_int(gram, N)
    len_of = lambda n: int(sum(n[i] * Gint[i][j] * n[j] for i in range(3) for j in range(3)))
    target = {}
    for b in bt:
        target.setdefault(len_of(b), set()).add(b)
    # all integer vectors with one of these lengths: |n_i|^2 <= L (G'^-1)_ii  (Cauchy-Schwarz)
    Gpi = inv3(Gp)
    Lmax = Fr(max(target), den)
    bound = [int(math.isqrt(int(Lmax * Gpi[i][i]))) + 1 for i in range(3)]
    if (2 * bound[0] + 1) * (2 * bound[1] + 1) * (2 * bound[2] + 1) <= 400000:
        ax = [np.arange(-bd, bd + 1, dtype=np.int64) for bd in bound]
        g = np.stack(np.meshgrid(*ax, indexing="ij"), axis=-1).reshape(-1, 3)
        Gi = np.array(Gint.tolist(), dtype=np.float64)
        if float(np.abs(Gi).max()) * float(max(bound)) ** 2 * 9 < 2 ** 52:
            Li = np.einsum("ni,ij,nj->n", g.astype(np.float64), Gi, g.astype(np.float64))
            for Lval, have in target.items():
                full = {tuple(int(x) for x in v) for v in g[Li == float(Lval)]}
                if full != have:
                    missing = full - have
                    lim = [s * n for n in N]
                    outside = all(any(abs(v[d]) > lim[d] for d in range(3)) for v in missing)
                    # input class of the known finding: nothing wrong is chosen, but equal-length mesh vectors that
                    # lie OUTSIDE the search box +-search_supercell*mp_grid are not part of the shell
                    kf = KF_BOX if (outside and not (have - full)) else None
                    ctx.count("oracle.shell_cut_by_box" if kf else "oracle.shell_not_whole")
                    ctx.fail(f"not a whole shell: {len(have)} of the {len(full)} mesh vectors of one length are chosen "
                             f"(missing e.g. {sorted(missing)[:2]}, extra {sorted(have - full)[:2]}; search box +-{lim})",
                             case, kf=kf)
                    break
                if len({wmap[b] for b in have}) != 1:
                    ctx.fail("vectors of one shell carry different weights", case)
                    break
            ctx.count("oracle.whole_shell_checked")
    # ---- (4) neighbour relation  k + b = k_nb + G   (exact fractions) for every listed k and every b
    keys = list(range(NK)) if kptirr is None else kptirr
    if sorted(bkv.neighbours.keys()) != sorted(keys) or sorted(bkv.G.keys()) != sorted(keys):
        ctx.fail(f"neighbours / G are not defined for exactly the requested k-points", case)
        return
    kg = np.array(bkv.kpt_grid)
    for ik, k in enumerate(ks):
        if tuple(int(x) for x in kg[ik]) != tuple(int(c * n) for c, n in zip(k, N)):
            ctx.fail(f"kpt_grid[{ik}] = {kg[ik]} is not k*mp_grid for k={k}", case)
            return
    for ik in keys:
        nbs, Gs = bkv.neighbours[ik], bkv.G[ik]
        if len(nbs) != nnb or len(Gs) != nnb:
            ctx.fail("wrong number of neighbours", case)
            return
        for ib in range(nnb):
            nb = int(nbs[ib])
            if not (0 <= nb < NK):
                ctx.fail(f"neighbour index {nb} out of range", case)
                return
            lhs = tuple(ks[ik][d] + Fr(bt[ib][d], N[d]) for d in range(3))
            rhs = tuple(ks[nb][d] + int(Gs[ib][d]) for d in range(3))
            if lhs != rhs:
                ctx.fail(f"neighbour relation violated at ik={ik} (k={ks[ik]}), b={bt[ib]}: neighbour {nb} (k={ks[nb]}), "
                         f"G={list(map(int, Gs[ib]))}: k+b={lhs} but k_nb+G={rhs}", case)
                return


def oracle(ctx, scale):
    rng = ctx.rng
    for it in range(ctx.n(60, 700) * scale):
        t, L, gram, Lf = bravais(rng)
        if rng.random() < 0.6:
            L, gram, Lf = relabel(rng, L, gram, Lf)
        kind = rng.choice(["iso", "iso", "aniso", "aniso", "flat"])
        if kind == "iso":
            n = rng.choice([1, 2, 3, 4, 5, 6] if ctx.tier == "quick" else [1, 2, 3, 4, 5, 6, 7, 8])
            N = (n, n, n)
        elif kind == "aniso":
            N = tuple(rng.choice([1, 2, 3, 4, 5, 6]) for _ in range(3))
        else:
            N = [1, 1, 1]
            N[rng.randrange(3)] = rng.choice([2, 3, 5, 7])
            N = tuple(N)
        opts = {}
        if rng.random() < 0.2:
            opts["kptirr"] = True
        if rng.random() < 0.15:
            opts["search_supercell"] = 3 if max(N) <= 4 else 2
        with ctx.attempt("BKVectors checks", dict(lattice_type=t, real_lattice=Lf.tolist(), mp_grid=N, opts=opts)):
            oracle_case(ctx, rng, t, L, gram, Lf, N, opts)


def replay(ctx, case):
    from wannierberri.w90files.bkvectors import BKVectors
    for f in case.get("failures", []):
        c = f["case"]
        Lf = np.array(c["real_lattice"], dtype=float)
        recip = 2 * np.pi * np.linalg.inv(Lf).T
        print("replay:", f["what"][:200])
        try:
            with quiet():
                wk, bc, bg = BKVectors.find_bk_vectors(recip, np.array(c["mp_grid"]),
                                                       search_supercell=c.get("search_supercell", 2))
            M = sum(w * np.outer(b, b) for w, b in zip(wk, bc))
            print("  now: NNB =", len(wk), " max|sum w b b - 1| =", np.abs(M - np.eye(3)).max())
        except Exception as ex:  # noqa
            print("  now raises:", type(ex).__name__, str(ex)[:120])
            ctx.fail("replayed: " + f["what"], c)
