"""C24 - wannierise returns a valid gauge that honours the frozen and outer windows."""
import contextlib
import importlib
import random
from fractions import Fraction as Fr

import numpy as np

from ..common import F, rat, rats, ints, ratss, parse_ratss, quiet

PID = "C24"
CLAIM = dict(
    design="3/C24",
    technique="Lean 4 proof over a model of the mask logic, of the embedding [e_frozen | U_free]·W and of one iteration of "
              "Kpoint_and_neighbours.update (calc_Z, Z-mixing, eigenvector choice, rotate_to_projections, localisation branch) "
              "with eigh / SVD-polar / inv as abstract kernels carrying named contracts + exact differential correspondence "
              "(masks; masked assignments; one real update step with the kernels stubbed by dyadic matrices) + property "
              "oracle on the real wannierise",
    text="Theorems (every band count, spectrum, threshold, window position incl. edges cutting multiplets, explicit frozen "
         "list; scalars in any field with a star operation): frozen window inside outer window => frozen is a subset of "
         "selected (the assert cannot fire); free = selected minus frozen; the k-point object addresses exactly the "
         "selected bands; the embedding built by the two masked assignments has orthonormal columns when "
         "U_free^H U_free = 1; U = E W with W unitary has U^H U = 1, U U^H e_f = e_f for every frozen f, and zero rows "
         "outside the selection; the same survives a polar orthogonalisation of a full-column-rank matrix.  "
         "wannierise_invariant_all_iterations: for ANY number of iterations, any neighbour table, overlaps, projections "
         "(rank-deficient ones included), phases, localise on/off, Z-mixing, the matrix held at every k-point after every "
         "sweep has the three invariants, given the kernel contracts: eigh returns an orthonormal basis for a Hermitian "
         "matrix (Z and A_free A_free^H are proved Hermitian), orthogonalize of a SQUARE matrix is unitary for every "
         "argument, orthogonalize of a tall matrix of full column rank is an isometry with the same column space (E W is "
         "shown to have full column rank); inv needs no contract.  Necessity: U=E W is an isometry iff W is unitary; a "
         "legitimate SVD polar pair of a rank-deficient tall matrix can drop a frozen state (counterexample theorem) - "
         "this is why the code orthogonalises the square matrix U_loc^H A.  Explicit frozen_states: the list form applies to "
         "every row of the mask array (every irreducible k-point whatever its global index), the dict form is keyed by the "
         "GLOBAL k-point index; rewriting the list as a dict over positions 0..NKirr-1 is not equivalent (counterexample "
         "kptirr=[0,1,3]).",
    note="Trusted: Lean kernel + Mathlib; the harness; the kernel contracts (checked numerically on every run by the oracle). "
         "PARTIAL: not modelled - the mix_ratio_u != 1 branch (declared untested by the code), site-symmetric symmetrisation "
         "of U and Z (sitesym=True), the centre/spread bookkeeping and the convergence test; these are oracle-only.",
)
TRUSTED = [
    "modelled: wannierise mask logic (frozen/selected/free/deselected/assert), Kpoint_and_neighbours.selected, the masked "
    "assignments U[frozen,:nf]=1, U[free,nf:]=U_free, rotate_to_projections, __init__, one update() call (calc_Z with "
    "freefree/freefrozen blocks, Zfrozen, Z-mixing, get_max_eig call, Mmn_loc_sumb, inv, both orthogonalize calls), and "
    "the sweep structure of the loop (neighbours' matrices taken from the previous sweep)",
    "contract eig_orthonormal: numpy.linalg.eigh returns orthonormal eigenvectors of a Hermitian matrix => any nvec <= n "
    "columns (get_max_eig) form an isometry",
    "contract polarSq_unitary: orthogonalize (U @ VT of numpy.linalg.svd) of a square matrix is unitary for EVERY argument, "
    "rank-deficient ones included",
    "contract polarTall_fullrank: orthogonalize of a tall matrix with a left inverse is an isometry Q with Q H = A, H "
    "invertible; nothing is assumed for rank-deficient tall arguments",
    "not modelled (oracle only): mix_ratio_u != 1, wcc phases / spreads, convergence logic, init='restart', "
    "site-symmetric (sitesym=True) symmetrisation of U and Z",
    "explicit frozen_states x site symmetry: checked on the diamond data (kptirr=[0,1,3]) in both tiers - list and dict "
    "forms (keys = global indices, incl. an irreducible point with index >= NKirr), sitesym False/True, the three invariants "
    "at every k-point of the full mesh (explicitly frozen bands required in the span on the whole star); dict keys that are "
    "not irreducible k-points are ignored by the code under sitesym=True and are not exercised",
    "select_window_degen is the C15 model (WB.C15.selectWindow); energies are dyadic so float comparisons are exact",
    "valid inputs = at every k: #frozen <= num_wann <= #selected and frozen window inside the outer window "
    "(otherwise the code raises; the raise of the frozen-inside-selected assert is compared with the model)",
]
RULE = ("synthetic WannierData on meshes of 1-12 k-points with BKVectors from the real code, M = C_k^H C_{k+b} for random "
        "isometries C_k, random complex A, dyadic spectra with multiplets (gaps 0, 1/256, 1/128 < thresh=0.01 <= 1/64); "
        "window edges placed on, inside and between multiplets of a random k; plus the Fe-222 data set of the "
        "repository; non-trivial = at least one k-point has a window edge cutting a multiplet or a frozen set that is "
        "neither empty nor everything; distinct = distinct generator sub-seed")

TH = 1e-2          # thresh of select_window_degen as called by wannierise (default value)
BIG = 10 ** 6      # stands for +-inf in the Lean model (all energies are < 100 in magnitude)


# ---------------------------------------------------------------------------------------------------------------
# generators

def gen_base_spectrum(rng, nb):
    """sorted dyadic energies with multiplets (gaps inside a multiplet: 0, 1/256, 1/128; between: >= 1/64)"""
    E = []
    e = Fr(rng.randint(-8, 8), 4)
    while len(E) < nb:
        size = rng.choice([1, 1, 1, 2, 2, 3, 4])
        for j in range(size):
            E.append(e)
            e = e + rng.choice([Fr(0), Fr(1, 256), Fr(1, 128)])
        e = E[-1] + rng.choice([Fr(1, 64), Fr(1, 32), Fr(1, 4), Fr(1, 2), Fr(1), Fr(3, 2)])
    return E[:nb]


def gen_spectra(rng, nk, nb):
    """per-k spectra: variations of one base so that band counts in a window are similar but not equal"""
    base = gen_base_spectrum(rng, nb)
    out = []
    for ik in range(nk):
        mode = rng.choice(["same", "shift", "fresh", "jitter"])
        if mode == "same":
            E = list(base)
        elif mode == "shift":
            d = Fr(rng.randint(-3, 3), 16)
            E = [e + d for e in base]
        elif mode == "fresh":
            E = gen_base_spectrum(rng, nb)
        else:
            E = sorted(e + rng.choice([Fr(0), Fr(0), Fr(1, 256), Fr(-1, 128), Fr(1, 8)]) for e in base)
        out.append(E)
    return out


def chains(E, th):
    out, cur = [], [0]
    for i in range(1, len(E)):
        if E[i] - E[i - 1] < th:
            cur.append(i)
        else:
            out.append(cur)
            cur = [i]
    out.append(cur)
    return out


def spec_window(E, th, wmin, wmax, incl):
    """reference semantics from the property statement: a multiplet (maximal run of gaps < thresh) cut by a window
    edge is taken whole when `incl` and left out whole otherwise.  Returns (mask, cut?)"""
    inside = [wmin <= e <= wmax for e in E]
    res = [False] * len(E)
    cut = False
    for ch in chains(E, th):
        fl = [inside[i] for i in ch]
        cut = cut or (any(fl) and not all(fl))
        val = all(fl) or (any(fl) and incl)
        for i in ch:
            res[i] = val
    return res, cut


def spec_masks(E, p, ik):
    """(frozen, selected, cut) at one k from the parameter dict p (floats / inf allowed)"""
    th = Fr(TH)
    fz, c1 = spec_window(E, th, p["froz_min"], p["froz_max"], False)
    sl, c2 = spec_window(E, th, p["outer_min"], p["outer_max"], True)
    fs = p.get("frozen_states")
    if isinstance(fs, list):
        for ib in fs:
            fz[ib] = True
    elif isinstance(fs, dict):
        for ib in fs.get(ik, []):
            fz[ib] = True
    return fz, sl, (c1 or c2)


def gen_edge(rng, spectra, kind):
    """a window edge placed relative to a band of a random k-point; more than half of the edges fall strictly inside a
    multiplet (between two members) or exactly on one of its members"""
    E = rng.choice(spectra)
    if rng.random() < 0.6:
        multi = [ch for ch in chains(E, Fr(TH)) if len(ch) >= 2]
        if multi:
            ch = rng.choice(multi)
            i = rng.choice(ch[:-1])
            lo, hi = E[i], E[i + 1]
            return float(rng.choice([lo, hi, (lo + hi) / 2, (lo + hi) / 2]))
    e = rng.choice(E)
    d = rng.choice([Fr(0), Fr(1, 512), Fr(-1, 512), Fr(1, 128) + Fr(1, 512), Fr(1, 16), Fr(-1, 16), Fr(1, 3), Fr(-1, 3)])
    return float(e + d)


def gen_windows(rng, spectra, nb):
    """returns parameter dict with windows + num_wann such that at every k  #frozen <= NW <= #selected and
    frozen is a subset of selected; falls back to simpler windows when a draw is infeasible"""
    nk = len(spectra)
    for attempt in range(60):
        p = dict(froz_min=float("inf"), froz_max=float("-inf"), outer_min=float("-inf"), outer_max=float("inf"))
        style = rng.choice(["both", "both", "both", "frozen_only", "outer_only", "none"]) if attempt < 50 else "none"
        if style in ("both", "outer_only"):
            a, b = sorted([gen_edge(rng, spectra, "o"), gen_edge(rng, spectra, "o")])
            if rng.random() < 0.3:
                a = float("-inf")
            if rng.random() < 0.2:
                b = float("inf")
            p["outer_min"], p["outer_max"] = a, b
        if style in ("both", "frozen_only"):
            a, b = sorted([gen_edge(rng, spectra, "f"), gen_edge(rng, spectra, "f")])
            a, b = max(a, p["outer_min"]), min(b, p["outer_max"])
            if rng.random() < 0.25:
                a = p["outer_min"] if p["outer_min"] > -1e9 else -100.0
            if a > b:
                continue
            p["froz_min"], p["froz_max"] = a, b
        # explicit frozen states (list for all k / dict per k), only bands that are selected where they apply
        r = rng.random()
        if r < 0.12:
            ib = rng.randrange(nb)
            p["frozen_states"] = [ib]
        elif r < 0.2:
            p["frozen_states"] = {rng.randrange(nk): [rng.randrange(nb)]}
        ok = True
        nf_max, ns_min = 0, nb
        for ik, E in enumerate(spectra):
            fz, sl, _ = spec_masks(E, p, ik)
            if any(f and not s for f, s in zip(fz, sl)):
                ok = False
                break
            nf_max = max(nf_max, sum(fz))
            ns_min = min(ns_min, sum(sl))
        if not ok or nf_max > ns_min or ns_min < 1:
            continue
        lo = max(nf_max, 1)
        nw = rng.choice([lo, ns_min, rng.randint(lo, ns_min), rng.randint(lo, ns_min)])
        p["num_wann"] = nw
        return p
    raise RuntimeError("generator could not find feasible windows")


MESHES = [(1, 1, 1), (2, 1, 1), (1, 2, 1), (1, 1, 3), (2, 2, 1), (2, 1, 2), (3, 1, 1), (2, 2, 2), (3, 2, 1), (2, 3, 2)]


def rand_iso(nprs, n, m):
    a = nprs.randn(n, m) + 1j * nprs.randn(n, m)
    q, _ = np.linalg.qr(a)
    return q


def build_wandata(case):
    """synthetic WannierData from the repository's own containers (EIG, AMN, MMN, BKVectors)"""
    from wannierberri.w90files import EIG, AMN, MMN
    from wannierberri.w90files.bkvectors import BKVectors
    from wannierberri.w90files.wandata import WannierData
    from wannierberri.utility import real_recip_lattice
    nprs = np.random.RandomState(case["np_seed"])
    mp = case["mesh"]
    lat = case["lattice"]
    _, rec = real_recip_lattice(real_lattice=np.array(lat))
    kpts = np.array([[i / mp[0], j / mp[1], k / mp[2]] for i in range(mp[0]) for j in range(mp[1]) for k in range(mp[2])])
    order = case["korder"]
    kpts = kpts[order]
    bk = BKVectors.from_kpoints(recip_lattice=rec, mp_grid=mp, kpoints_red=kpts)
    NK, NB, NBAS, NW = len(kpts), case["NB"], case["NBAS"], case["p"]["num_wann"]
    C = [rand_iso(nprs, NBAS, NB) for _ in range(NK)]
    mm = {ik: np.array([C[ik].conj().T @ C[bk.neighbours[ik][ib]] for ib in range(bk.NNB)]) for ik in range(NK)}
    E = {ik: np.array([float(e) for e in case["spectra"][ik]]) for ik in range(NK)}
    A = {ik: nprs.randn(NB, NW) + 1j * nprs.randn(NB, NW) for ik in range(NK)}
    if case.get("rank_deficient_A"):
        for ik in range(NK):
            A[ik][:, -1] = A[ik][:, 0]      # projections that are linearly dependent
    wd = WannierData()
    wd.seedname = "/tmp/agentL-unused"
    wd.set_file("bkvec", bk)
    wd.set_file("mmn", MMN(data=mm, NK=NK))
    wd.set_file("eig", EIG(data=E, NK=NK))
    wd.set_file("amn", AMN(data=A, NK=NK))
    return wd


def gen_case(sub_seed, small=False):
    rng = random.Random(sub_seed)
    mesh = rng.choice(MESHES[:6] if small else MESHES)
    nk = mesh[0] * mesh[1] * mesh[2]
    NB = rng.randint(3, 6 if small else 9)
    NBAS = NB + rng.choice([0, 1, 2, 3])
    spectra = gen_spectra(rng, nk, NB)
    p = gen_windows(rng, spectra, NB)
    kind = rng.choice(["cubic", "ortho", "triclinic", "triclinic"])
    nprs = np.random.RandomState(rng.getrandbits(31))
    if kind == "cubic":
        lat = np.eye(3) * 3.0
    elif kind == "ortho":
        lat = np.diag(nprs.uniform(2.5, 4.0, 3))
    else:
        lat = np.eye(3) * 3 + 0.4 * nprs.randn(3, 3)
    korder = list(range(nk))
    if rng.random() < 0.3:
        rng.shuffle(korder)
    opts = dict(init=rng.choice(["amn", "amn", "random"]),
                num_iter=rng.choice([0, 0, 1, 5, 5]),
                localise=rng.random() < 0.75,
                mix_ratio_z=rng.choice([1.0, 0.5, 0.8]),
                symmetrize_Z=rng.random() < 0.8)
    return dict(sub_seed=sub_seed, small=small, mesh=mesh, NB=NB, NBAS=NBAS, spectra=spectra, p=p, lattice=lat.tolist(),
                korder=korder, np_seed=rng.getrandbits(31), opts=opts, restart=rng.random() < 0.15,
                rank_deficient_A=rng.random() < 0.08)


def case_brief(case):
    return dict(sub_seed=case["sub_seed"], small=case["small"], mesh=case["mesh"], NB=case["NB"], NBAS=case["NBAS"],
                windows={k: v for k, v in case["p"].items()}, opts=case["opts"], restart=case["restart"],
                spectra=[[float(e) for e in E] for E in case["spectra"]])


# ---------------------------------------------------------------------------------------------------------------
# running the real code

def wmodule():
    return importlib.import_module("wannierberri.wannierisation.wannierise")


@contextlib.contextmanager
def recording():
    """harness-side observation of the per-k objects: the Wannierizer created inside wannierise() is kept"""
    wmod = wmodule()
    orig = wmod.Wannierizer
    box = {}

    class Rec(orig):
        def __init__(self, *a, **k):
            super().__init__(*a, **k)
            box["wz"] = self
    wmod.Wannierizer = Rec
    try:
        yield box
    finally:
        wmod.Wannierizer = orig


def call_wannierise(wd, p, opts, np_seed=0):
    wmod = wmodule()
    kw = dict(froz_min=p["froz_min"], froz_max=p["froz_max"], outer_min=p["outer_min"], outer_max=p["outer_max"],
              parallel=False, savechk=False, print_progress_every=1000)
    if "frozen_states" in p:
        kw["frozen_states"] = p["frozen_states"]
    kw.update(opts)
    if kw.get("init") == "random":
        kw["num_wann"] = p["num_wann"]
        np.random.seed(np_seed)      # wannierise draws the random start from numpy's global generator
    with quiet():
        return wmod.wannierise(wd, **kw)


def check_gauge(ctx, what, case_info, v, spectra, p, NK, NB, NW):
    """the property at every k-point, from the statement: isometry, frozen states in the span, zero weight outside"""
    worst = dict(iso=0.0, span=0.0, zero=0.0)
    if sorted(v.keys()) != list(range(NK)):
        ctx.fail(f"{what}: v_matrix has k-points {sorted(v.keys())}, expected 0..{NK - 1}", case_info)
        return worst
    for ik in range(NK):
        U = np.asarray(v[ik])
        if U.shape != (NB, NW):
            ctx.fail(f"{what}: v_matrix[{ik}] has shape {U.shape}, expected {(NB, NW)}", case_info)
            return worst
        fz, sl, _ = spec_masks(spectra[ik], p, ik)
        d_iso = np.abs(U.conj().T @ U - np.eye(NW)).max()
        worst["iso"] = max(worst["iso"], d_iso)
        if not d_iso < 1e-10:
            ctx.fail(f"{what}: columns of U(k={ik}) are not orthonormal: max|U^H U - 1| = {d_iso:.3e}",
                     dict(case_info, ik=ik, U=U))
            return worst
        for f in np.where(fz)[0]:
            e = np.zeros(NB, dtype=complex)
            e[f] = 1
            r = np.linalg.norm(e - U @ (U.conj().T @ e))
            worst["span"] = max(worst["span"], r)
            if not r < 1e-8:
                ctx.fail(f"{what}: frozen band {f} at k={ik} is not in the span of U: |(1-UU^H)e_f| = {r:.3e}",
                         dict(case_info, ik=ik, frozen=np.where(fz)[0], U=U))
                return worst
        out = np.where(np.logical_not(sl))[0]
        if len(out):
            z = np.abs(U[out]).max()
            worst["zero"] = max(worst["zero"], z)
            if not z < 1e-12:
                ctx.fail(f"{what}: bands {out.tolist()} at k={ik} are outside the outer window but carry weight "
                         f"{z:.3e}", dict(case_info, ik=ik, U=U))
                return worst
    return worst


def run_case(ctx, case, record=False):
    """one synthetic data set through the real wannierise; returns (v, wannierizer or None)"""
    info = case_brief(case)
    p = case["p"]
    NK = len(case["spectra"])
    with quiet():
        wd = build_wandata(case)
    with recording() as box:
        v = call_wannierise(wd, p, case["opts"], np_seed=case["np_seed"])
    w = check_gauge(ctx, "wannierise", info, v, case["spectra"], p, NK, case["NB"], p["num_wann"])
    if case["restart"] and not ctx.failures:
        v2 = call_wannierise(wd, p, dict(case["opts"], init="restart", num_iter=2))
        check_gauge(ctx, "wannierise(init='restart')", info, v2, case["spectra"], p, NK, case["NB"], p["num_wann"])
        ctx.count("oracle.restart")
    return v, box.get("wz"), w


# ---------------------------------------------------------------------------------------------------------------
# correspondence: masks and masked assignments, model vs code

def mask_str(m):
    return ",".join("1" if x else "0" for x in m) if len(m) else "_"


def edge_rat(x):
    if x == float("inf"):
        return str(BIG)
    if x == float("-inf"):
        return str(-BIG)
    return rat(x)


def masks_line(E, p, ik):
    fs = p.get("frozen_states")
    extra = fs if isinstance(fs, list) else (fs.get(ik, []) if isinstance(fs, dict) else [])
    return (f"masks {rats(E)} {rat(TH)} {edge_rat(p['froz_min'])} {edge_rat(p['froz_max'])} "
            f"{edge_rat(p['outer_min'])} {edge_rat(p['outer_max'])} {ints(extra)}")


def dyadic_matrix(rng, n, m, den=8, lo=-8, hi=8):
    return [[Fr(rng.randint(lo, hi), den) for _ in range(m)] for _ in range(n)]


class _NPProxy:
    """numpy with linalg.inv replaced (only inside kpoint_and_neighbours, only while one stubbed update runs)"""

    def __init__(self, inv):
        class _LA:
            def __getattr__(self_, name):
                return getattr(np.linalg, name)
        la = _LA()
        la.inv = inv
        self.linalg = la

    def __getattr__(self, name):
        return getattr(np, name)


def fmat(rows, n, m):
    return np.array([[float(x) for x in r] for r in rows], dtype=float).reshape(n, m)


def exact_rows(a):
    return [[Fr(float(x)) for x in row] for row in np.asarray(a)]


def update_lines(ctx, rng, lines, expect, tags):
    """one real Kpoint_and_neighbours.update step with the kernels (get_max_eig, orthogonalize, numpy.linalg.inv) replaced
    by stubs that return prescribed dyadic matrices and record their arguments: Z (argument of get_max_eig), the
    argument of inv / of the square orthogonalize, and the returned U_opt_full are compared exactly with the model"""
    import wannierberri.wannierisation.kpoint_and_neighbours as kmod
    from wannierberri.symmetry.sawf import VoidSymmetrizer
    for it in range(ctx.n(8, 40)):
        nb = rng.randint(2, 5)
        nnb = rng.choice([1, 2, 4])

        def rand_masks():
            fz = [rng.random() < 0.3 for _ in range(nb)]
            fr = [(not f) and rng.random() < 0.75 for f in fz]
            return fz, fr
        for attempt in range(100):
            frozen, free = rand_masks()
            nfz, nfr = sum(frozen), sum(free)
            if nfr >= 1 or nfz >= 1:
                break
        nw = rng.randint(max(nfz, 1), max(nfz + nfr, 1)) if nfz + nfr >= 1 else 1
        if nw < nfz or nw > nfz + nfr:
            continue
        ng = nw - nfz
        nbm = [rand_masks() for _ in range(nnb)]
        frozen_nb = np.array([m[0] for m in nbm])
        free_nb = np.array([m[1] for m in nbm])
        M = [dyadic_matrix(rng, nb, nb, den=4, lo=-4, hi=4) for _ in range(nnb)]
        wbs = {1: [Fr(1)], 2: [Fr(1, 4), Fr(3, 4)], 4: [Fr(1, 2), Fr(1, 2), Fr(3, 4), Fr(1, 4)]}[nnb]
        amn = dyadic_matrix(rng, nb, nw, den=4, lo=-4, hi=4)
        Mnp = np.array([fmat(m, nb, nb) for m in M]).astype(complex)
        with quiet():
            kp = kmod.Kpoint_and_neighbours(Mmn=Mnp, frozen=np.array(frozen), frozen_nb=frozen_nb, free=np.array(free),
                                            free_nb=free_nb, wb=np.array([float(x) for x in wbs]),
                                            bk=np.zeros((nnb, 3)), ikirr=0, symmetrizer_Zirr=VoidSymmetrizer(NK=1),
                                            symmetrizer_Uirr=VoidSymmetrizer(NK=1), amn=fmat(amn, nb, nw).astype(complex))
        fz = np.where(frozen)[0].tolist()
        fr = np.where(free)[0].tolist()
        zold = None
        for step in range(2):
            localise = rng.random() < 0.6
            mix = None if (step == 0 or rng.random() < 0.3) else Fr(rng.choice([1, 3]), 4)
            Unb = [dyadic_matrix(rng, nb, nw, den=4, lo=-4, hi=4) for _ in range(nnb)]
            phase = [[Fr(rng.choice([1, 1, -1, 2]), 1) for _ in range(nnb)] for _ in range(nw)]
            eo = dyadic_matrix(rng, nfr, ng, den=4, lo=-4, hi=4)
            io = dyadic_matrix(rng, nw, nw, den=4, lo=-4, hi=4)
            po = dyadic_matrix(rng, nw, nw, den=4, lo=-4, hi=4)
            rec = {"orth": []}

            def stub_eig(Z, nvec, n, _eo=eo):
                rec["Z"] = np.array(Z)
                rec["eig_dims"] = (nvec, n)
                return fmat(_eo, nfr, ng).astype(complex)

            def stub_orth(u, _po=po):
                rec["orth"].append(np.array(u))
                if len(rec["orth"]) == 1:
                    return fmat(_po, nw, nw).astype(complex)
                return np.array(u)

            def stub_inv(a, _io=io):
                rec["inv"] = np.array(a)
                return fmat(_io, nw, nw).astype(complex)
            saved = (kmod.get_max_eig, kmod.orthogonalize, kmod.np)
            kmod.get_max_eig, kmod.orthogonalize, kmod.np = stub_eig, stub_orth, _NPProxy(stub_inv)
            try:
                with quiet():
                    U, _, _ = kp.update([fmat(u, nb, nw).astype(complex) for u in Unb],
                                        wcc_bk_phase=fmat(phase, nw, nnb).astype(complex), localise=localise,
                                        mix_ratio=1.0 if mix is None else float(mix), mix_ratio_u=1.0)
            finally:
                kmod.get_max_eig, kmod.orthogonalize, kmod.np = saved
            mid = rec["inv"] if localise else rec["orth"][0]
            if max(np.abs(np.imag(rec["Z"])).max() if rec["Z"].size else 0, np.abs(np.imag(U)).max()) != 0:
                ctx.mismatch("update returned imaginary parts for real input", dict(step=step))
            mixing_used = mix is not None and zold is not None
            line = " ".join([
                "update", "1" if localise else "0", str(nb), str(nw), str(nnb), ints(fz), ints(fr),
                ";".join(ints(np.where(frozen_nb[ib])[0]) for ib in range(nnb)),
                ";".join(ints(np.where(free_nb[ib])[0]) for ib in range(nnb)),
                ratss([row for m in M for row in m]), rats(wbs), ratss(amn),
                (rat(mix) + "," + rat(1 - mix)) if mixing_used else "_",
                ratss(zold) if mixing_used else "_",
                ratss([row for u in Unb for row in u]), ratss(phase), ratss(eo) if nfr else "_", ratss(io), ratss(po)])
            lines.append(line)
            expect.append("|".join([ratss(exact_rows(np.real(rec["Z"]))) if nfr else "_",
                                    ratss(exact_rows(np.real(mid))), ratss(exact_rows(np.real(U)))]))
            tags.append(("update", it, step, localise, mixing_used, rec["eig_dims"] == (ng, nfr)))
            ctx.count("corr.update." + ("localise" if localise else "rotate_to_projections") + (".zmix" if mixing_used else ""))
            zold = exact_rows(np.real(rec["Z"]))


def corr(ctx):
    import wannierberri.wannierisation.kpoint_and_neighbours as kmod
    rng = ctx.rng
    lines, expect, tags = [], [], []
    N = ctx.n(20, 150)
    # ---- (a) masks of valid runs, (b) masked assignments on the recorded k-point objects
    for it in range(N):
        case = gen_case(rng.getrandbits(48), small=True)
        case["opts"] = dict(case["opts"], num_iter=0, init="amn")
        p = case["p"]
        with ctx.attempt("wannierise (mask correspondence)", case_brief(case)):
            with quiet():
                wd = build_wandata(case)
            with recording() as box:
                call_wannierise(wd, p, case["opts"])
            wz = box["wz"]
            for ik, kp in enumerate(wz.kpoints):
                E = case["spectra"][ik]
                lines.append(masks_line(E, p, ik))
                expect.append("|".join([mask_str(kp.frozen), "?", mask_str(kp.free),
                                        mask_str(kp.selected), "1"]))
                tags.append(("masks", case["sub_seed"], ik))
                ctx.count("corr.masks")
            # masked assignments: orthogonalize (SVD kernel) replaced by a fixed dyadic matrix => exact comparison
            for ik in rng.sample(range(len(wz.kpoints)), min(2, len(wz.kpoints))):
                kp = wz.kpoints[ik]
                NB, NW = case["NB"], p["num_wann"]
                fz = np.where(kp.frozen)[0].tolist()
                fr = np.where(kp.free)[0].tolist()
                ng = NW - len(fz)
                Uf = dyadic_matrix(rng, len(fr), ng)
                Wm = dyadic_matrix(rng, NW, NW)
                Wnp = np.array([[float(x) for x in r] for r in Wm]).reshape(NW, NW)
                Ufnp = np.array([[float(x) for x in r] for r in Uf], dtype=float).reshape(len(fr), ng)
                orig = kmod.orthogonalize
                kmod.orthogonalize = lambda u, _W=Wnp: _W.astype(complex)
                try:
                    got = kp.rotate_to_projections(Ufnp.astype(complex))
                finally:
                    kmod.orthogonalize = orig
                if np.abs(got.imag).max() != 0:
                    ctx.mismatch("rotate_to_projections returned imaginary parts for real input", dict(case=case_brief(case)))
                lines.append(f"final {NB} {NW} {ints(fz)} {ints(fr)} {ratss(Uf)} {ratss(Wm)}")
                expect.append(ratss([[Fr(float(x)) for x in row] for row in got.real]))
                tags.append(("final", case["sub_seed"], ik))
                # the embedding itself: with W = 1 the function returns E
                kmod.orthogonalize = lambda u, _n=NW: np.eye(_n, dtype=complex)
                try:
                    gotE = kp.rotate_to_projections(Ufnp.astype(complex))
                finally:
                    kmod.orthogonalize = orig
                lines.append(f"embed {NB} {NW} {ints(fz)} {ints(fr)} {ratss(Uf)}")
                expect.append(ratss([[Fr(float(x)) for x in row] for row in gotE.real]))
                tags.append(("embed", case["sub_seed"], ik))
                ctx.count("corr.assignments")
    # ---- (c) the guard: frozen window reaching outside the outer window => AssertionError <=> model assert false
    for it in range(ctx.n(10, 60)):
        case = gen_case(rng.getrandbits(48), small=True)
        p = dict(case["p"])
        p.pop("frozen_states", None)
        spectra = case["spectra"]
        p["outer_min"], p["outer_max"] = sorted([gen_edge(rng, spectra, "o"), gen_edge(rng, spectra, "o")])
        p["froz_min"], p["froz_max"] = sorted([gen_edge(rng, spectra, "f"), gen_edge(rng, spectra, "f")])
        case["p"] = p
        case["opts"] = dict(case["opts"], num_iter=0, init="amn")
        raised = None
        with quiet():
            wd = build_wandata(case)
        try:
            call_wannierise(wd, p, case["opts"])
            raised = "none"
        except AssertionError as e:
            raised = "frozen-not-selected" if "Frozen bands should be included" in str(e) else "other"
        except Exception as e:
            raised = "other"
        for ik, E in enumerate(spectra):
            lines.append(masks_line(E, p, ik))
            expect.append(None)
            tags.append(("guard", case["sub_seed"], ik, raised, len(spectra)))
        ctx.count(f"corr.guard.{raised}")
    update_lines(ctx, rng, lines, expect, tags)
    # explicit frozen_states on irreducible k-points (site symmetry, diamond): the rows of the real frozen mask against
    # the model's explicitFrozen; the same runs are checked as oracle cases (invariants at every k of the full mesh)
    collect = []
    oracle_frozen_states_sitesym(ctx, lean_lines=collect)
    ctx.__dict__["_c24_fs_done"] = True
    for form, fs, kptirr, masks, spectra, base in collect:
        if isinstance(fs, dict):
            data = ";".join(ints([k] + list(b)) for k, b in fs.items())
            lines.append(f"explicit dict {data} {ints(kptirr)}")
        else:
            lines.append(f"explicit all {ints(fs)} {ints(kptirr)}")
        expect.append(";".join(ints(np.where(m)[0]) for m in masks))
        tags.append(("explicit", form))
        ctx.count("corr.explicit_frozen_states." + form)
    out = ctx.lean(lines)
    guard = {}
    for l, o, e, t in zip(lines, out, expect, tags):
        if t[0] == "masks":
            mf, ms, mr, mk, ma = o.split("|")
            cf, _, cr, ck, ca = e.split("|")
            ctx.case(signature=l, nontrivial=True)
            if (mf, mr, mk, ma) != (cf, cr, ck, ca) or ms != mk:
                ctx.mismatch(f"masks at k={t[2]}: model frozen|sel|free|ksel|assert={o} code frozen|free|selected={cf}|{cr}|{ck}",
                             dict(line=l, sub_seed=t[1]))
        elif t[0] == "explicit":
            ctx.case(signature=l, nontrivial=True)
            if o != e:
                ctx.mismatch(f"explicit frozen_states ({t[1]}) per irreducible k-point: model={o} code={e}", dict(line=l))
        elif t[0] == "update":
            ctx.case(signature=l, nontrivial=True)
            mo, co = o.split("|"), e.split("|")
            same = len(mo) == 3 and all(parse_ratss(a) == parse_ratss(b) for a, b in zip(mo, co))
            if not same or not t[5]:
                ctx.mismatch(f"update step (localise={t[3]}, Z-mixing={t[4]}, eig dims ok={t[5]}): model Z|mid|U = {o[:300]} "
                             f"code = {e[:300]}", dict(line=l[:600]))
        elif t[0] in ("final", "embed"):
            ctx.case(signature=l, nontrivial=True)
            if parse_ratss(o) != parse_ratss(e):
                ctx.mismatch(f"{t[0]} at k={t[2]}: model={o} code={e}", dict(line=l, sub_seed=t[1]))
        else:
            ma = o.split("|")[4]
            g = guard.setdefault(t[1], dict(raised=t[3], model_ok=True, lines=[]))
            g["model_ok"] = g["model_ok"] and ma == "1"
            g["lines"].append(l)
    for ss, g in guard.items():
        ctx.case(signature=("guard", ss), nontrivial=True)
        code_guard = g["raised"] == "frozen-not-selected"
        if code_guard != (not g["model_ok"]):
            ctx.mismatch(f"guard: code raised={g['raised']} but model assertOK(all k)={g['model_ok']}",
                         dict(sub_seed=ss, lines=g["lines"][:3]))
    if lines:
        ctx.sample(dict(protocol_line=lines[0], model=out[0], code=expect[0]))
        i = next((i for i, t in enumerate(tags) if t[0] == "final"), None)
        if i is not None:
            ctx.sample(dict(protocol_line=lines[i], model=out[i], code=expect[i]))


# ---------------------------------------------------------------------------------------------------------------
# oracle

def structure_check(ctx, case, wz):
    """after a real run: the final U at every k is E·W with E the embedding of the recorded masks and of the
    recorded U_opt_free, W = E^H U unitary (this is the shape the theorems talk about)"""
    info = case_brief(case)
    NW = case["p"]["num_wann"]
    for ik, kp in enumerate(wz.kpoints):
        fz = np.where(kp.frozen)[0]
        fr = np.where(kp.free)[0]
        Emb = np.zeros((case["NB"], NW), dtype=complex)
        Emb[fz, range(len(fz))] = 1
        Emb[np.ix_(fr, range(len(fz), NW))] = kp.U_opt_free
        U = kp.U_opt_full
        W = Emb.conj().T @ U
        d1 = np.abs(Emb @ W - U).max()
        d2 = np.abs(W.conj().T @ W - np.eye(NW)).max()
        d3 = np.abs(kp.U_opt_free.conj().T @ kp.U_opt_free - np.eye(NW - len(fz))).max() if NW > len(fz) else 0.0
        if max(d1, d2, d3) > 1e-9:
            # not a violation of the property by itself: the shape assumed by theorems T2-T4 no longer describes the code
            ctx.mismatch(f"final U(k={ik}) is not E·W with unitary W and isometric U_free: |EW-U|={d1:.2e} "
                         f"|W^HW-1|={d2:.2e} |Uf^H Uf-1|={d3:.2e}", dict(info, ik=ik))
            return


def oracle_real_data(ctx, scale):
    """the Fe 2x2x2 data set shipped with the repository (32 bands, 18 WFs, real multiplets), read only"""
    import os
    from ..common import REPO
    seed = os.path.join(REPO, "tests", "data", "Fe-222-pw", "Fe")
    if not os.path.exists(seed + ".mmn.npz") or os.path.getsize(seed + ".mmn.npz") == 0:
        ctx.note("Fe-222-pw data set not available; real-data part skipped")
        return
    import wannierberri as wb
    rng = ctx.rng
    for it in range(ctx.n(3, 12) * scale):
        with quiet():
            wd = wb.WannierData.from_npz(seedname=seed, files=["amn", "mmn", "eig", "bkvec"])
        NK, NB, NW = wd.mmn.NK, wd.mmn.NB, wd.amn.NW
        spectra = [[Fr(float(e)) for e in wd.eig.data[ik]] for ik in range(NK)]
        # window edges at / just above / just below real band energies
        for attempt in range(200):
            def edge():
                E = rng.choice(spectra)
                return float(rng.choice(E)) + rng.choice([0.0, 1e-3, -1e-3, 0.004, -0.004, 0.5, -0.5])
            p = dict(froz_min=float("inf"), froz_max=float("-inf"), outer_min=float("-inf"), outer_max=float("inf"))
            if rng.random() < 0.7:
                p["outer_min"], p["outer_max"] = sorted([edge(), edge()])
                if rng.random() < 0.5:
                    p["outer_min"] = float("-inf")
            a, b = sorted([edge(), edge()])
            a, b = max(a, p["outer_min"]), min(b, p["outer_max"])
            if rng.random() < 0.5:
                a = -100.0 if p["outer_min"] == float("-inf") else p["outer_min"]
            if a <= b:
                p["froz_min"], p["froz_max"] = a, b
            ms = [spec_masks(E, p, ik) for ik, E in enumerate(spectra)]
            if all(sum(fz) <= NW <= sum(sl) and not any(f and not s for f, s in zip(fz, sl)) for fz, sl, _ in ms):
                break
        else:
            continue
        p["num_wann"] = NW
        opts = dict(init=rng.choice(["amn", "random"]), num_iter=rng.choice([0, 3]), localise=rng.random() < 0.7,
                    mix_ratio_z=rng.choice([1.0, 0.5]))
        info = dict(data="tests/data/Fe-222-pw", windows=p, opts=opts, np_seed=it)
        with ctx.attempt("wannierise on Fe-222-pw", info):
            v = call_wannierise(wd, p, opts, np_seed=it)
            check_gauge(ctx, "wannierise(Fe-222-pw)", info, v, spectra, p, NK, NB, NW)
        cut = any(c for _, _, c in ms)
        ctx.case(signature=("Fe222", repr(p), repr(opts)), nontrivial=cut or any(0 < sum(fz) for fz, _, _ in ms))
        ctx.count("oracle.realdata.Fe222" + (".cut_multiplet" if cut else ""))


def load_diamond(with_symmetrizer=True):
    """the diamond 2x2x2 data set of the repository (read only), assembled from the repository's own readers with two
    reader processes (WannierData.from_w90_files starts one process per core, which costs ~30 s on a loaded machine)"""
    import os
    from ..common import REPO
    from wannierberri.w90files import WIN, EIG, AMN, MMN
    from wannierberri.w90files.bkvectors import BKVectors
    from wannierberri.w90files.wandata import WannierData
    from wannierberri.symmetry.sawf import SymmetrizerSAWF
    seed = os.path.join(REPO, "tests", "data", "diamond", "diamond")
    if not all(os.path.exists(seed + e) and os.path.getsize(seed + e) > 0 for e in (".mmn", ".amn", ".eig", ".win", ".sawf.npz")):
        return None, None
    with quiet():
        wd = WannierData()
        wd.seedname = "/tmp/agentL-unused"
        wd.set_file("win", WIN.from_w90_file(seedname=seed))
        wd.set_chk(read=False)
        bk = BKVectors.from_kpoints(recip_lattice=wd.chk.recip_lattice, mp_grid=wd.chk.mp_grid, kpoints_red=wd.chk.kpt_red)
        wd.set_file("bkvec", bk)
        wd.set_file("mmn", MMN.from_w90_file(seedname=seed, bkvec=bk, npar=2))
        wd.set_file("amn", AMN.from_w90_file(seedname=seed, npar=2))
        wd.set_file("eig", EIG.from_w90_file(seedname=seed))
        sym = SymmetrizerSAWF.from_npz(seed + ".sawf.npz") if with_symmetrizer else None
    return wd, sym


def oracle_frozen_states_sitesym(ctx, lean_lines=None):
    """both forms of the explicit `frozen_states` (a list = every k-point; a dict keyed by GLOBAL k-point indices, including
    irreducible points whose global index is >= NKirr) x sitesym in {False, True} on the diamond data, whose irreducible
    k-points [0, 1, 3] are not the first three: the three invariants at EVERY k-point of the full mesh, the explicitly
    frozen bands being required in the span at every member of the star of the k-point they were given for"""
    import copy
    wd0, sym = load_diamond()
    if wd0 is None:
        ctx.note("diamond data set not available; frozen_states x sitesym part skipped")
        return
    NK, NB, NW = wd0.mmn.NK, wd0.mmn.NB, wd0.amn.NW
    spectra = [[Fr(float(e)) for e in wd0.eig.data[ik]] for ik in range(NK)]
    kptirr = [int(k) for k in sym.kptirr]
    star = {k: [j for j in range(NK) if int(sym.kptirr[sym.kpt2kptirr[j]]) == k] for k in kptirr}
    bands = [0, 1, 2, 3]
    forms = [("list", bands, {k: bands for k in range(NK)}),
             ("dict-all-irr", {k: bands for k in kptirr}, None),
             ("dict-last-irr", {kptirr[-1]: bands}, None)]
    base = dict(froz_min=float("inf"), froz_max=float("-inf"), outer_min=float("-inf"), outer_max=45.0, num_wann=NW)
    for form, fs, _ in forms:
        for sitesym in (False, True):
            if isinstance(fs, dict):
                # expected explicitly frozen k-points: the keys, and with site symmetry the whole star of each key
                exp = {}
                for k, b in fs.items():
                    for j in (star[k] if sitesym else [k]):
                        exp[j] = b
            else:
                exp = {k: fs for k in range(NK)}
            p_spec = dict(base, frozen_states=exp)
            ms = [spec_masks(E, p_spec, ik) for ik, E in enumerate(spectra)]
            if not all(sum(fz) <= NW <= sum(sl) for fz, sl, _ in ms):
                continue
            wd = copy.deepcopy(wd0)
            if sitesym:
                with quiet():
                    wd.set_symmetrizer(copy.deepcopy(sym))
            opts = dict(init="amn", num_iter=ctx.rng.choice([0, 4]), sitesym=sitesym, check_irreps=False,
                        localise=ctx.rng.random() < 0.7)
            p_run = dict(base, frozen_states=fs)
            info = dict(data="tests/data/diamond", kptirr=kptirr, frozen_states=repr(fs), opts=opts, form=form)
            with ctx.attempt(f"wannierise(diamond, frozen_states as {form}, sitesym={sitesym})", info):
                with recording() as box:
                    v = call_wannierise(wd, p_run, opts)
                check_gauge(ctx, f"wannierise(diamond, frozen_states={form}, sitesym={sitesym})", info, v, spectra, p_spec,
                            NK, NB, NW)
                if lean_lines is not None and sitesym and "wz" in box:
                    lean_lines.append((form, fs, kptirr, [np.array(kp.frozen) for kp in box["wz"].kpoints], spectra, base))
            ctx.case(signature=("diamond-frozen_states", form, sitesym), nontrivial=True)
            ctx.count(f"oracle.frozen_states.{form}.sitesym={sitesym}")


def oracle_diamond_sitesym(ctx):
    """thorough tier only (loading the text files takes ~30 s): diamond with and without site symmetry"""
    import os
    from ..common import REPO
    import wannierberri as wb
    from wannierberri.symmetry.sawf import SymmetrizerSAWF
    seed = os.path.join(REPO, "tests", "data", "diamond", "diamond")
    if not all(os.path.exists(seed + ext) and os.path.getsize(seed + ext) > 0 for ext in (".mmn", ".amn", ".eig", ".win", ".sawf.npz")):
        ctx.note("diamond data set not available; skipped")
        return
    import copy
    cwd = os.getcwd()
    os.chdir(ctx.work)
    try:
        wd0, symm = load_diamond()
        for sitesym in (False, True):
            for (fa, fb, oa, ob) in [(-8, 20, -np.inf, np.inf), (-8, 20, -10, 40), (-8, 19.5, -10, 29.2), (0, 12, -10, 22)]:
                with quiet():
                    wd = copy.deepcopy(wd0)
                    if sitesym:
                        wd.set_symmetrizer(copy.deepcopy(symm))
                NK, NB, NW = wd.mmn.NK, wd.mmn.NB, wd.amn.NW
                spectra = [[Fr(float(e)) for e in wd.eig.data[ik]] for ik in range(NK)]
                p = dict(froz_min=fa, froz_max=fb, outer_min=oa, outer_max=ob, num_wann=NW)
                ms = [spec_masks(E, p, ik) for ik, E in enumerate(spectra)]
                if not all(sum(fz) <= NW <= sum(sl) for fz, sl, _ in ms):
                    ctx.count("oracle.realdata.diamond.infeasible_window")
                    continue
                opts = dict(init="amn", num_iter=5, sitesym=sitesym, check_irreps=False)
                info = dict(data="tests/data/diamond", windows=p, opts=opts)
                with ctx.attempt("wannierise on diamond", info):
                    v = call_wannierise(wd, p, opts)
                    check_gauge(ctx, f"wannierise(diamond, sitesym={sitesym})", info, v, spectra, p, NK, NB, NW)
                ctx.case(signature=("diamond", sitesym, fa, fb, oa, ob), nontrivial=True)
                ctx.count(f"oracle.realdata.diamond.sitesym={sitesym}")
    finally:
        os.chdir(cwd)


def oracle(ctx, scale):
    rng = ctx.rng
    N = ctx.n(160, 1600) * scale
    worst = dict(iso=0.0, span=0.0, zero=0.0)
    for it in range(N):
        sub = rng.getrandbits(48)
        try:
            case = gen_case(sub)
        except RuntimeError:
            ctx.count("oracle.generator_gave_up")
            continue
        run_one(ctx, case, worst)
        if ctx.failures and not ctx.searching:
            break
    ctx.note(f"worst deviations on synthetic data: |U^H U-1|={worst['iso']:.2e}, |(1-UU^H)e_f|={worst['span']:.2e}, "
             f"weight outside outer window={worst['zero']:.2e}")
    if not ctx.failures:
        oracle_real_data(ctx, scale)
    if not ctx.failures and scale == 1 and not ctx.__dict__.get("_c24_fs_done"):
        oracle_frozen_states_sitesym(ctx)
    if ctx.tier == "thorough" and scale == 1 and not ctx.failures:
        oracle_diamond_sitesym(ctx)


def run_one(ctx, case, worst=None):
    p, o = case["p"], case["opts"]
    info = case_brief(case)
    ms = [spec_masks(E, p, ik) for ik, E in enumerate(case["spectra"])]
    cut = any(c for _, _, c in ms)
    nfz = [sum(fz) for fz, _, _ in ms]
    nsl = [sum(sl) for _, sl, _ in ms]
    ctx.count(f"oracle.init={o['init']}")
    ctx.count(f"oracle.num_iter={o['num_iter']}")
    ctx.count(f"oracle.localise={o['localise']}")
    ctx.count("oracle.window_cuts_multiplet" if cut else "oracle.no_cut")
    ctx.count(f"oracle.nk={len(ms)}")
    if "frozen_states" in p:
        ctx.count("oracle.frozen_states=" + type(p["frozen_states"]).__name__)
    if max(nfz) == p["num_wann"]:
        ctx.count("oracle.edge.num_wann=max_frozen")
    if min(nsl) == p["num_wann"]:
        ctx.count("oracle.edge.num_wann=min_selected")
    if any(n < case["NB"] for n in nsl):
        ctx.count("oracle.some_band_outside_outer_window")
    with ctx.attempt("wannierise", info):
        v, wz, w = run_case(ctx, case)
        if worst is not None:
            for k in worst:
                worst[k] = max(worst[k], w[k])
        if wz is not None and not ctx.failures and len(ctx.mismatches) < 3:
            structure_check(ctx, case, wz)
    ctx.case(signature=("syn", case["sub_seed"]), nontrivial=cut or any(0 < n < case["NB"] for n in nfz))
    if len(ctx.samples) < 4 and cut:
        ctx.sample(dict(case=info, n_frozen_per_k=nfz, n_selected_per_k=nsl))


def replay(ctx, rec):
    """re-run the recorded failing cases (each carries the sub-seed of its generator)"""
    done = set()
    for fl in rec.get("failures", []):
        c = fl.get("case", {})
        if "sub_seed" in c and c["sub_seed"] not in done:
            done.add(c["sub_seed"])
            case = gen_case(int(c["sub_seed"]), small=bool(c.get("small", False)))
            if isinstance(c.get("opts"), dict):
                case["opts"] = dict(case["opts"], **c["opts"])
            print(f"replaying synthetic case sub_seed={c['sub_seed']}: mesh={case['mesh']} NB={case['NB']} "
                  f"windows={case['p']} opts={case['opts']}")
            run_one(ctx, case)
        elif "data" in c:
            print("real-data case:", c)
            oracle_real_data(ctx, 1)
    if not done and not rec.get("failures"):
        oracle(ctx, 1)
