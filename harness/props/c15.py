"""C15 - degenerate multiplets are never split."""
import numpy as np
from fractions import Fraction as Fr

from ..common import rats, rat, parse_intss, quiet

PID = "C15"
CLAIM = dict(
    design="3/C15",
    technique="Lean 4 proof over an index-level model (get_borders / select_window_degen) + exact differential "
              "correspondence on dyadic energies + property oracle on the real code",
    text="Theorems (for every band count, threshold, window and Kramers flag): the blocks partition the bands, "
         "internal gaps <= thresh, every boundary has a gap > thresh (even index with Kramers) and every such "
         "index is a boundary; window selection never separates bands closer than thresh, include only adds, "
         "exclude only removes; with threshold 0 no boundary separates equal energies, the code's hand-over of the user's "
         "threshold is the identity and the seeded rule 0 -> -1 splits an exact pair.  The model is tied to the code by running both on the same exact inputs.",
    note="Trusted: Lean kernel + Mathlib; the harness; numpy float comparisons on dyadic inputs are exact. "
         "Tabulator value assignment and Data_K glue are checked on the real code, not modelled.",
)
TRUSTED = [
    "modelled: get_borders, find_degen, get_bands_in_range (no select_bands / Ebandmin / Ebandmax), select_window_degen, "
    "the hand-over Calculator(degen_thresh, degen_Kramers) -> grouping arguments (correspondence line per case, thresholds 0, th/4, th)",
    "not modelled (oracle only): Tabulator.__call__ value assignment, Data_K.get_bands_in_range_groups glue, the "
    "hand-over of the user's degen_thresh (0, tiny, th, huge) from Calculator.__init__ to the grouping (thresh_oracle)",
    "energies are dyadic rationals so that numpy's float subtraction/comparison is exact and equals the model's",
]
RULE = ("sorted band arrays with multiplets of size 1-5 (gaps exactly 0, just below and just above the threshold), "
        "windows whose edges fall inside, on and between multiplets; non-trivial = the array contains at least one "
        "multiplet of size >= 2; distinct = distinct (function, energies, parameters)")


def gen_energies(rng, nmax=9):
    """sorted dyadic energies with multiplets; returns (list[Fraction], thresh Fraction)"""
    th = Fr(rng.choice([1, 2, 3, 5]), 2 ** rng.choice([6, 8, 10]))
    n_groups = rng.randint(1, 5)
    E = []
    base = Fr(rng.randint(-8, 8), 4)
    for g in range(n_groups):
        size = rng.choice([1, 1, 2, 2, 3, 4, 5])
        e = base
        for j in range(size):
            E.append(e)
            # inside a multiplet: gap 0, th/2, th*(1-1/16) or exactly th  (th itself still counts as degenerate
            # for get_borders, which cuts at  > th,  and as NOT close for the window, which links at  < th)
            e = e + rng.choice([Fr(0), th / 2, th * Fr(15, 16), th / 4])
        base = E[-1] + rng.choice([th * Fr(17, 16), th * 2, Fr(1, 4), Fr(1), th])
        if len(E) >= nmax:
            break
    return E[:nmax], th


def pairs_str(b):
    return ";".join(f"{int(a)},{int(c)}" for a, c in b) if len(b) else "_"


def corr(ctx):
    from wannierberri.grid.tetrahedron import get_borders, get_bands_in_range
    from wannierberri.utility import find_degen, select_window_degen
    rng = ctx.rng
    lines, expect, cases = [], [], []
    N = ctx.n(150, 1500)
    for it in range(N):
        E, th = gen_energies(rng)
        Ef = np.array([float(e) for e in E])
        kr = rng.random() < 0.4
        if kr and len(E) % 2 == 1:
            E = E + [E[-1] + 1]
            Ef = np.array([float(e) for e in E])
        multiplet = any(E[i + 1] - E[i] <= th for i in range(len(E) - 1))
        ctx.count(f"corr.nbands={len(E)}")
        ctx.count("corr.kramers" if kr else "corr.plain")
        # --- get_borders
        with ctx.attempt("get_borders", dict(E=Ef, th=float(th), kr=kr)):
            got = get_borders(Ef, float(th), degen_Kramers=kr)
            lines.append(f"borders {rats(E)} {rat(th)} {int(kr)}")
            expect.append(pairs_str(got))
            cases.append(("get_borders", Ef.tolist(), float(th), kr))
            if not kr:
                got2 = find_degen(Ef, float(th))
                lines.append(f"borders {rats(E)} {rat(th)} 0")
                expect.append(pairs_str(got2))
                cases.append(("find_degen", Ef.tolist(), float(th), kr))
        # --- the same through a calculator object: the user's degen_thresh / degen_Kramers as the calculator stores
        #     them are what the grouping receives (model: handOver false = identity); 0 is a legitimate threshold
        thu = rng.choice([Fr(0), th, th / 4])
        with ctx.attempt("Calculator(degen_thresh) -> get_borders", dict(E=Ef, th=float(thu), kr=kr)):
            from wannierberri.calculators import tabulate as _tab
            with quiet():
                calc = _tab.Energy(degen_thresh=float(thu), degen_Kramers=kr)
            got = get_borders(Ef, calc.degen_thresh, degen_Kramers=calc.degen_Kramers)
            lines.append(f"borders {rats(E)} {rat(thu)} {int(kr)}")
            expect.append(pairs_str(got))
            cases.append(("Calculator.degen_thresh -> get_borders", Ef.tolist(), float(thu), kr))
            ctx.count("corr.calculator_route.thresh=0" if thu == 0 else "corr.calculator_route.thresh>0")
        # --- get_bands_in_range
        emin = rng.choice(E) + rng.choice([Fr(0), -th / 2, th / 2, Fr(-1, 8)])
        emax = emin + rng.choice([Fr(0), th / 2, th * 3, Fr(1, 2), Fr(3)])
        with ctx.attempt("get_bands_in_range", dict(E=Ef, th=float(th), kr=kr, emin=float(emin), emax=float(emax))):
            got = get_bands_in_range(float(emin), float(emax), Ef, degen_thresh=float(th), degen_Kramers=kr)
            lines.append(f"inrange {rats(E)} {rat(th)} {int(kr)} {rat(emin)} {rat(emax)}")
            expect.append(pairs_str(got))
            cases.append(("get_bands_in_range", Ef.tolist(), float(th), kr, float(emin), float(emax)))
        # --- select_window_degen
        for incl in (False, True):
            wmin = rng.choice(E) + rng.choice([Fr(0), -th / 4, th / 4, Fr(-3)])
            wmax = rng.choice(E) + rng.choice([Fr(0), -th / 4, th / 4, Fr(3)])
            with ctx.attempt("select_window_degen", dict(E=Ef, th=float(th), wmin=float(wmin), wmax=float(wmax), incl=incl)):
                got = select_window_degen(Ef, thresh=float(th), win_min=float(wmin), win_max=float(wmax),
                                          include_degen=incl)
                got_idx = select_window_degen(Ef, thresh=float(th), win_min=float(wmin), win_max=float(wmax),
                                              include_degen=incl, return_indices=True)
                if list(np.where(got)[0]) != list(got_idx):
                    ctx.fail("select_window_degen: mask and indices disagree",
                             dict(E=Ef, th=float(th), wmin=float(wmin), wmax=float(wmax), incl=incl))
                lines.append(f"window {rats(E)} {rat(th)} {rat(wmin)} {rat(wmax)} {int(incl)}")
                expect.append(",".join(str(int(b)) for b in got))
                cases.append(("select_window_degen", Ef.tolist(), float(th), float(wmin), float(wmax), incl))
                ctx.count("corr.window.cut_multiplet" if multiplet else "corr.window.simple")
    out = ctx.lean(lines)
    for l, o, e, c in zip(lines, out, expect, cases):
        ctx.case(signature=l, nontrivial=True)
        if o != e:
            ctx.mismatch(f"{c[0]}: model={o} code={e}", dict(line=l, case=c))
    ctx.sample(dict(protocol_line=lines[0], model=out[0], code=expect[0]))
    ctx.sample(dict(protocol_line=lines[-1], model=out[-1], code=expect[-1]))


# --------------------------------------------------------------------------------------------
# property-level oracle on the real code (independent of the Lean model)

def spec_blocks_ok(E, th, kr, blocks):
    """the property: contiguous partition, internal gaps <= th, boundary gaps > th, even boundaries with Kramers"""
    n = len(E)
    if not blocks or blocks[0][0] != 0 or blocks[-1][1] != n:
        return "does not cover all bands"
    for (a, b), (c, d) in zip(blocks, blocks[1:]):
        if b != c:
            return "blocks not contiguous"
    for a, b in blocks:
        if not a < b:
            return "empty block"
        if 0 < a and not (E[a] - E[a - 1] > th):
            return f"boundary {a} has a gap <= thresh"
        if kr and (a % 2 or b % 2):
            return "odd boundary with Kramers"
        if not kr:
            for i in range(a + 1, b):
                if E[i] - E[i - 1] > th:
                    return f"internal gap > thresh at {i}"
    if kr:
        bnd = {a for a, _ in blocks}
        for i in range(2, n, 2):
            if E[i] - E[i - 1] > th and i not in bnd:
                return f"even index {i} with large gap is not a boundary"
    return None


def spec_window(E, th, wmin, wmax, incl):
    """reference semantics written from the property statement: chains = maximal runs with gaps < th"""
    n = len(E)
    chains, cur = [], [0]
    for i in range(1, n):
        if E[i] - E[i - 1] < th:
            cur.append(i)
        else:
            chains.append(cur)
            cur = [i]
    chains.append(cur)
    inside = [wmin <= e <= wmax for e in E]
    res = [False] * n
    for ch in chains:
        flags = [inside[i] for i in ch]
        # whole multiplet inside -> selected; cut by a window edge -> selected only when include_degen
        val = all(flags) or (any(flags) and incl)
        for i in ch:
            res[i] = val
    return res


def oracle(ctx, scale):
    from wannierberri.grid.tetrahedron import get_borders
    from wannierberri.utility import select_window_degen
    rng = ctx.rng
    N = ctx.n(300, 3000) * scale
    for it in range(N):
        E, th = gen_energies(rng, nmax=12)
        Ef = np.array([float(e) for e in E])
        kr = rng.random() < 0.4
        if kr and len(E) % 2 == 1:
            if rng.random() < 0.15:
                # odd number of bands with Kramers grouping: known finding F11 (input outside physical use)
                with ctx.attempt("get_borders(odd NB, Kramers)", dict(E=Ef, th=float(th))):
                    b = get_borders(Ef, float(th), degen_Kramers=True)
                    msg = spec_blocks_ok(E, th, True, [tuple(x) for x in b])
                    if msg:
                        ctx.fail("get_borders with degen_Kramers and an odd number of bands: " + msg,
                                 dict(E=Ef, th=float(th)), kf="F11-kramers-odd-NB")
                continue
            E = E + [E[-1] + 1]
            Ef = np.array([float(e) for e in E])
        case = dict(E=Ef, th=float(th), kr=kr)
        with ctx.attempt("get_borders", case):
            b = [tuple(x) for x in get_borders(Ef, float(th), degen_Kramers=kr)]
            msg = spec_blocks_ok(E, th, kr, b)
            ctx.case(signature=("b", tuple(E), th, kr), nontrivial=any(y - x > 1 for x, y in b))
            if msg:
                ctx.fail("get_borders: " + msg, dict(case, blocks=b))
        for incl in (False, True):
            wmin = rng.choice(E) + rng.choice([Fr(0), -th / 4, th / 4, Fr(-3)])
            wmax = rng.choice(E) + rng.choice([Fr(0), -th / 4, th / 4, Fr(3)])
            case = dict(E=Ef, th=float(th), wmin=float(wmin), wmax=float(wmax), incl=incl)
            with ctx.attempt("select_window_degen", case):
                got = [bool(x) for x in select_window_degen(Ef, thresh=float(th), win_min=float(wmin),
                                                            win_max=float(wmax), include_degen=incl)]
                want = spec_window(E, th, wmin, wmax, incl)
                cut = got != [wmin <= e <= wmax for e in E]
                ctx.case(signature=("w", tuple(E), th, wmin, wmax, incl), nontrivial=cut)
                ctx.count("oracle.window.edge_cuts_multiplet" if cut else "oracle.window.no_cut")
                if got != want:
                    ctx.fail(f"select_window_degen(include_degen={incl}) splits or mis-selects a multiplet: "
                             f"got {got} expected {want}", case)
    groups_oracle(ctx, scale)
    tab_oracle(ctx, scale)
    thresh_oracle(ctx, scale)


def groups_oracle(ctx, scale):
    """the band groups the calculators actually use: Data_K.get_bands_in_range_groups_ik (window groups, plus - for
    Fermi-sea calculators - the lumped block (0, bandmax) of fully occupied bands).  Property: the groups are
    pairwise disjoint contiguous blocks, no block boundary falls inside a multiplet (gap <= thresh), every band below
    the window is in exactly one group when sea=True.  The lower window edge is put inside / at / just outside
    multiplets on purpose."""
    from wannierberri.data_K.data_K import Data_K
    rng = ctx.rng

    class Stub:
        pass
    for it in range(ctx.n(200, 2000) * scale):
        E, th = gen_energies(rng, nmax=10)
        Ef = np.array([float(e) for e in E])
        kr = rng.random() < 0.3 and len(E) % 2 == 0
        sea = rng.random() < 0.7
        emin = rng.choice(E) + rng.choice([Fr(0), th / 4, -th / 4, th / 2, -th / 2, Fr(-5)])
        emax = rng.choice(E + [E[-1] + 1]) + rng.choice([Fr(0), th / 4, Fr(5)])
        if emax < emin:
            emin, emax = emax, emin
        d = Stub()
        d.E_K = Ef[None, :]
        case = dict(E=Ef, th=float(th), kramers=kr, sea=sea, emin=float(emin), emax=float(emax))
        with ctx.attempt("Data_K.get_bands_in_range_groups_ik", case):
            g = Data_K.get_bands_in_range_groups_ik(d, 0, float(emin), float(emax), degen_thresh=float(th),
                                                   degen_Kramers=kr, sea=sea)
            blocks = sorted((int(a), int(b)) for a, b in g.keys())
            cut = any(E[i] < emin <= E[i + 1] and E[i + 1] - E[i] <= th for i in range(len(E) - 1))
            ctx.case(signature=("grp", tuple(E), th, kr, sea, emin, emax), nontrivial=cut)
            ctx.count("oracle.groups.lower_edge_inside_multiplet" if cut else "oracle.groups.other")
            n = len(E)
            seen = [0] * n
            msg = None
            for a, b in blocks:
                if not (0 <= a < b <= n):
                    msg = f"block {(a, b)} out of range"
                    break
                for i in range(a, b):
                    seen[i] += 1
                if not kr:
                    # a block boundary inside the band range must not cut a multiplet
                    for x in (a, b):
                        if 0 < x < n and E[x] - E[x - 1] <= th:
                            msg = f"block boundary {x} of {(a, b)} falls inside a multiplet (gap {float(E[x] - E[x - 1])} <= thresh)"
            if msg is None and max(seen) > 1:
                msg = f"band {seen.index(max(seen))} belongs to {max(seen)} groups: {blocks}"
            if msg is None and sea:
                for i in range(n):
                    if E[i] < emin and seen[i] != 1:
                        msg = f"band {i} lies below the window but is in {seen[i]} groups (sea=True): {blocks}"
                        break
            if msg is None:
                for i in range(n):
                    if emin <= E[i] <= emax and seen[i] != 1:
                        msg = f"band {i} lies inside the window but is in {seen[i]} groups: {blocks}"
                        break
            if msg:
                ctx.fail("band groups used by the calculators: " + msg, dict(case, groups=blocks))


def tab_oracle(ctx, scale):
    """tabulated band values are equal inside a block (real Tabulator on a spin-doubled random system)"""
    from ..wbsys import rand_system, wb
    from wannierberri.grid.tetrahedron import get_borders
    rs = np.random.RandomState(ctx.rng.getrandbits(31))
    for it in range(ctx.n(2, 10) * scale):
        nw = int(rs.randint(2, 4))
        with quiet():
            s = rand_system(rs, num_wann=nw, nR=6, matrices=("Ham", "AA"))
            s.double_spin()
        th = 1e-6
        k = rs.uniform(0, 1, 3)
        case = dict(num_wann=nw, k=k, what="double_spin random system, BerryCurvature/Energy/Velocity tabulators")
        with ctx.attempt("Tabulator on doubled system", case):
            with quiet():
                calcs = {"E": wb.calculators.tabulate.Energy(degen_thresh=th),
                         "V": wb.calculators.tabulate.Velocity(degen_thresh=th),
                         "O": wb.calculators.tabulate.BerryCurvature(degen_thresh=th)}
                res = wb.evaluate_k(s, k=np.array(k), calculators=calcs, return_single_as_dict=True)
            E = res["E"].data[0]
            blocks = get_borders(E, th)
            ctx.case(signature=("tab", nw, tuple(np.round(k, 6))), nontrivial=True)
            if any(b - a != 2 for a, b in blocks):
                ctx.note(f"doubled system gave blocks {blocks}")
            for key in ("E", "V", "O"):
                d = res[key].data[0]
                for a, b in blocks:
                    if np.abs(d[a:b] - d[a]).max() > 1e-9 * (1 + np.abs(d).max()):
                        ctx.fail(f"tabulated {key} differs inside degenerate block {(a, b)}", dict(case, values=d[a:b]))


def spec_blocks(E, th):
    """the blocks the property prescribes (no Kramers): cut exactly where the gap is > th"""
    cuts = [0] + [i for i in range(1, len(E)) if E[i] - E[i - 1] > th] + [len(E)]
    return list(zip(cuts[:-1], cuts[1:]))


def thresh_oracle(ctx, scale):
    """the threshold the USER gives to a calculator is the threshold of the blocks: real Tabulators (and, through
    the same Calculator base class, a Fermi-sea calculator) on a k.p model  H(k) = diag(e_i + a_i.k)  evaluated at
    k=0, where the e_i are the dyadic multiplet arrays of the generator (gaps exactly 0, th/4, th/2, th, 17/16 th..)
    and every band has its own velocity a_i.  degen_thresh sweeps th itself, 0 (exact degeneracy only: gap 0 <= 0 is
    still one block), a tiny and a huge value.  Expected: band n carries the mean of a over the block of n that the
    property prescribes for THAT threshold - equal inside a block, not mixed across a boundary."""
    from ..wbsys import wb
    rng = ctx.rng
    for it in range(ctx.n(6, 40) * scale):
        E, th = gen_energies(rng, nmax=7)
        n = len(E)
        Ef = np.array([float(e) for e in E])
        a = np.array([[Fr(rng.randint(-16, 16), 8) for _ in range(3)] for _ in range(n)], dtype=object)
        af = a.astype(float)

        def ham(k, Ef=Ef, af=af):
            return np.diag(Ef + af @ np.asarray(k, dtype=float)).astype(complex)

        def dham(k, af=af, n=n):
            d = np.zeros((n, n, 3), dtype=complex)
            d[np.arange(n), np.arange(n), :] = af
            return d
        with quiet():
            system = wb.system.SystemKP(Ham=ham, derHam=dham, kmax=1.0)
        for thr in [Fr(0), th, th / 4, Fr(1, 2 ** 40), Fr(100)][:ctx.n(5, 5)]:
            case = dict(E=Ef, velocities=af, degen_thresh=float(thr), what="SystemKP diag(e_i + a_i.k) at k=0")
            with ctx.attempt("Tabulator / calculator with user threshold", case):
                with quiet():
                    calcs = {"E": wb.calculators.tabulate.Energy(degen_thresh=float(thr)),
                             "V": wb.calculators.tabulate.Velocity(degen_thresh=float(thr))}
                    res = wb.evaluate_k(system, k=np.zeros(3), calculators=calcs, return_single_as_dict=True)
                Eg = E
                blocks = spec_blocks(Eg, thr)
                Et = res["E"].data[0]
                for x, y in blocks:
                    if np.abs(Et[x:y] - Ef[x:y].mean()).max() > 1e-12:
                        ctx.fail(f"tabulated Energy of block {(x, y)} is not the block average of the band energies for "
                                 f"degen_thresh={float(thr)}", dict(case, blocks=blocks, E_tab=Et[x:y]))
                        break
                ctx.case(signature=("thr", tuple(E), thr, tuple(map(tuple, a))),
                         nontrivial=any(y - x > 1 for x, y in blocks) and len(blocks) > 1)
                ctx.count("oracle.thresh.zero" if thr == 0 else "oracle.thresh.positive")
                V = res["V"].data[0]
                for x, y in blocks:
                    want = af[x:y].mean(axis=0)
                    if np.abs(V[x:y] - V[x]).max() > 1e-9:
                        ctx.fail(f"tabulated Velocity differs inside the block {(x, y)} prescribed by "
                                 f"degen_thresh={float(thr)} (gaps {[float(Eg[i] - Eg[i - 1]) for i in range(x + 1, y)]}): "
                                 f"the multiplet was split", dict(case, blocks=blocks, V=V[x:y]))
                        break
                    if np.abs(V[x:y] - want).max() > 1e-9:
                        ctx.fail(f"tabulated Velocity of block {(x, y)} is not the block average for "
                                 f"degen_thresh={float(thr)}: bands separated by more than the threshold were mixed",
                                 dict(case, blocks=blocks, V=V[x:y], want=want))
                        break


def replay(ctx, case):
    oracle(ctx, 1)
