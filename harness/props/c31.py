"""C31 - k.p models: numerical and analytic k-derivatives agree."""
import itertools
import math
import numpy as np
from fractions import Fraction as Fr

from ..common import F, rat, rats, ratss, parse_rats, quiet

PID = "C31"
CLAIM = dict(
    design="3/C31",
    technique="Lean 4 proof about the finite-difference stencil of Derivative3D / SystemKP (model polymorphic over the "
              "scalar field, executed at Rat) + differential correspondence with the real Derivative3D / SystemKP on "
              "rational polynomial Hamiltonians + property oracle (numeric vs analytic derivatives within the proved "
              "truncation term plus rounding; calculators with and without analytic derivatives)",
    text="Theorems, for every stencil that is closed under b -> -b and satisfies sum_b w_b b_a b_c = delta_ac (the "
         "contract of find_shells), every field of characteristic 0, every k and every matrix entry: if along the "
         "stencil f(k+b) = even(b) + A1.b + A3.bbb then sum_b w_b f(k+b) b_e = A1_e + sum A3_acd M4_acde; for every "
         "polynomial Hamiltonian of degree <= 3 in tensor form, in the Cartesian and in the reduced k-vector "
         "convention, the numerical first derivative is the analytic Cartesian gradient plus the explicit "
         "k-independent term sum_b w_b T3(Cb) b_e (zero for degree <= 2: exact), the numerical second derivative "
         "(stencil of the numerical first) is exactly the analytic Hessian and the numerical third derivative exactly "
         "the analytic third-derivative tensor; with real weights and vectors the stencil commutes with complex "
         "conjugation, so all three numerical derivatives of a Hermitian H(k) are Hermitian; find_shells / check_B1 "
         "(SVD solve and check_parallel abstract): whenever the function returns, the returned weights passed the guard "
         "|sum_s w_s M_s - 1|_F <= 1e-5 on the selected shells, every shell (a run of the sorted lengths) and hence the "
         "returned stencil is closed under b -> -b with equal weights, and sum_b w_b b_a b_c equals delta_ac up to that "
         "tolerance and the shells dropped by the |w| > 1e-8 filter; the main expansion is also proved without the exact "
         "completeness relation (deviation = sum_a A1_a (M2_ae - delta_ae)).  The model is tied to "
         "the code by running both on the same exact inputs (the code's own weights and vectors).",
    note="Trusted: Lean kernel + Mathlib; the harness; in find_shells the SVD solve, check_parallel and np.linalg.norm "
         "are abstract kernels (contract of the norm: |-v| = |v|); the exact hypotheses of the derivative theorems are "
         "additionally checked numerically on every stencil used; IEEE rounding is bounded, not proved.",
)
TRUSTED = [
    "modelled: Derivative3D.__call__, the chain Ham -> derHam -> der2Ham -> der3Ham of SystemKP.__init__, k_to_1BZ, "
    "k_red2cart, the Cartesian / reduced k-vector convention",
    "modelled: find_shells / check_B1 (search box, sort by length, find_degen runs, the selection loop with its "
    "`weights` variable, the residual guard, the |w| > 1e-8 filter); abstract kernels: the SVD solve (`kernel`), "
    "check_parallel (`par`), np.linalg.norm (`nrm`, contract nrm(-v) = nrm(v)); the correspondence run instantiates them "
    "exactly (pseudo-inverse weights by Gaussian elimination on the Gram matrix, exact parallelism, squared lengths) on "
    "dyadic lattices; the exact GoodStencil hypotheses are in addition checked numerically on every stencil the oracle uses",
    "tolerance-guarded branches of find_shells (1e-8 run threshold on float norms, 1e-7 on singular values, 1e-6 on "
    "parallelism) are modelled as exact comparisons; lattices in the correspondence keep a margin",
    "not modelled (oracle only): Data_K_k.Xbar, the calculators; eigh / formula evaluation by contract",
    "calculators / tabulators: the allowed |numeric - analytic| is derived from the proved derivative bound: 10 x the "
    "measured response of the same quantity to analytic derivatives perturbed by that bound (4 random Hermitian "
    "directions; accumulated per k-point in absolute value for grid integrals; worst observed ratio 0.47); grids and "
    "k-points with a band gap < 0.3 are left out",
    "rounding: the numerical derivative of level j is compared within  (j/6)*|D^(n+2)F|*sum_b|w_b||b|^4  (proved "
    "truncation term, exact for polynomials of degree <= 4) + 16*eps*(sum_b |w_b||b|)^j*max|F|  (rounding of the "
    "cancelling sum; the constant 16 is ~80x the largest ratio observed on the unchanged code)",
    "k-points are taken inside the box [-1/2,1/2)^3 with a margin of the stencil reach: on the box boundary k_to_1BZ "
    "wraps k+b to the opposite face and the finite difference of a non-periodic k.p Hamiltonian is meaningless "
    "(reported as a remark, outside the property's quantifier 'k-points inside the box')",
]
RULE = ("every run visits hexagonal(120deg)/bcc/fcc/rhombohedral/unimodular REAL lattices with array-valued cubic "
        "Hamiltonians and fully numerical derivatives (stencils with +-b pairs whose reduced components sum to 0 are "
        "counted); polynomial Hamiltonians of degree 0-4 (1-3 bands, Hermitian, rational coefficients in the correspondence), "
        "trigonometric (smooth) Hamiltonians, lattices cubic/ortho/hex/triclinic/fcc/bcc given as kmax, real_lattice "
        "or recip_lattice, finite_diff_dk in {default 1e-4, 3e-5, 1e-3, 1e-2, dyadic}, Cartesian and reduced "
        "conventions, analytic derivatives supplied up to level 0-3.  non-trivial = degree >= 2 and a non-cubic "
        "stencil or reduced convention or >= 2 bands; distinct = distinct (operation, inputs)")

EPS = 2.220446049250313e-16
KF_SMALL = "C31-find-shells-small-recip"


# --------------------------------------------------------------------------------------------
# polynomial / trigonometric Hamiltonians with analytic derivatives (written from the definition)

class PolyHam:
    """H(q) = sum_{(i,j,l)} C[(i,j,l)] q0^i q1^j q2^l ; q = argument of the user's Ham (Cartesian or reduced)"""

    def __init__(self, coef):
        self.C = coef
        self.nw = next(iter(coef.values())).shape[0]
        self.deg = max(sum(e) for e in coef)

    def tensor(self, q, n):
        """n-th derivative tensor w.r.t. q at q: shape (nw, nw) + (3,)*n"""
        q = np.array(q, dtype=float)
        out = np.zeros((self.nw, self.nw) + (3,) * n, dtype=complex)
        for d in itertools.product(range(3), repeat=n):
            acc = np.zeros((self.nw, self.nw), dtype=complex)
            for e, A in self.C.items():
                e = list(e)
                c = 1.0
                for a in d:
                    c *= e[a]
                    e[a] -= 1
                    if c == 0:
                        break
                if c != 0:
                    acc = acc + c * A * q[0] ** e[0] * q[1] ** e[1] * q[2] ** e[2]
            out[(slice(None), slice(None)) + d] = acc
        return out

    def __call__(self, q):
        return self.tensor(q, 0)

    def absmax(self, q):
        q = np.abs(np.array(q, dtype=float))
        return sum(np.abs(A).max() * q[0] ** e[0] * q[1] ** e[1] * q[2] ** e[2] for e, A in self.C.items())

    def supnorm(self, q, n):
        """max over matrix entries of the Frobenius norm of the n-th q-derivative tensor at q (exact for polynomials:
        the truncation terms only involve the value at k)"""
        T = self.tensor(q, n)
        return float(np.sqrt((np.abs(T) ** 2).sum(axis=tuple(range(2, 2 + n)))).max()) if n else float(np.abs(T).max())


class TrigHam:
    """H(q) = A0 + sum_j A_j cos(p_j.q) + B_j sin(p_j.q)   (smooth, not polynomial)"""

    def __init__(self, A0, terms):
        self.A0, self.terms = A0, terms
        self.nw = A0.shape[0]
        self.deg = 99

    def tensor(self, q, n):
        q = np.array(q, dtype=float)
        out = np.zeros((self.nw, self.nw) + (3,) * n, dtype=complex)
        if n == 0:
            out = out + self.A0
        for A, B, p in self.terms:
            ph = float(np.dot(p, q))
            # d^n/dx^n cos(x) = cos(x + n pi/2)
            c, s = math.cos(ph + n * math.pi / 2), math.sin(ph + n * math.pi / 2)
            P = np.ones(())
            for _ in range(n):
                P = np.multiply.outer(P, p)
            out = out + np.multiply.outer(A * c + B * s, P)
        return out

    def __call__(self, q):
        return self.tensor(q, 0)

    def absmax(self, q):
        return np.abs(self.A0).max() + sum(np.abs(A).max() + np.abs(B).max() for A, B, p in self.terms)

    def supnorm(self, q, n):
        return float(sum((np.abs(A).max() + np.abs(B).max()) * np.linalg.norm(p) ** n for A, B, p in self.terms)) \
            + (float(np.abs(self.A0).max()) if n == 0 else 0.0)


def cart_tensor(ham, q, n, Cmat):
    """Cartesian derivative tensor: contract every derivative index with Cmat[e, a] = d q_a / d kcart_e"""
    T = ham.tensor(q, n)
    if Cmat is not None:
        for ax in range(n):
            T = np.moveaxis(np.tensordot(T, Cmat, axes=([2 + ax], [1])), -1, 2 + ax)
    return T


def rand_herm(rs, nw, scale=1.0, dyadic=False, rng=None):
    if dyadic:
        A = np.array([[rng.randint(-4, 4) + 1j * rng.randint(-4, 4) for _ in range(nw)] for _ in range(nw)]) / 2.0
    else:
        A = (rs.normal(size=(nw, nw)) + 1j * rs.normal(size=(nw, nw))) * scale
    return (A + A.conj().T) / 2


def rand_polyham(rs, nw, deg, sparse=False, dyadic=False, rng=None):
    C = {}
    for e in itertools.product(range(deg + 1), repeat=3):
        if sum(e) <= deg and (not sparse or sum(e) in (0, deg) or rs.rand() < 0.35):
            C[e] = rand_herm(rs, nw, dyadic=dyadic, rng=rng)
    if not C:
        C[(0, 0, 0)] = rand_herm(rs, nw, dyadic=dyadic, rng=rng)
    return PolyHam(C)


def rand_trigham(rs, nw):
    terms = [(rand_herm(rs, nw), rand_herm(rs, nw), rs.uniform(-1.5, 1.5, 3)) for _ in range(int(rs.randint(1, 4)))]
    return TrigHam(rand_herm(rs, nw), terms)


def lattice_spec(rs, dyadic=False):
    """returns (kwargs for SystemKP, description)"""
    kind = rs.choice(["kmax", "cubic", "ortho", "hex", "triclinic", "fcc", "bcc"])
    sc = float(rs.choice([0.4, 1.0, 2.5])) if not dyadic else float(rs.choice([0.5, 1.0, 2.0]))
    if kind == "kmax":
        km = float(rs.choice([0.5, 1.0, 2.0, 1.5])) if dyadic else float(rs.uniform(0.4, 3.0))
        return dict(kmax=km), f"kmax={km}"
    if kind == "cubic":
        L = np.eye(3)
    elif kind == "ortho":
        L = np.diag([1.0, 1.5, 0.75]) if dyadic else np.diag(rs.uniform(0.7, 1.6, 3))
    elif kind == "hex":
        L = np.array([[1, 0, 0], [-0.5, np.sqrt(3) / 2, 0], [0, 0, 1.25]])
    elif kind == "fcc":
        L = np.array([[0, 1, 1], [1, 0, 1], [1, 1, 0]]) / 2.0
    elif kind == "bcc":
        L = np.array([[-1, 1, 1], [1, -1, 1], [1, 1, -1]]) / 2.0
    else:
        if dyadic:
            L = np.array([[1, 0.25, 0], [0, 1, 0.25], [0.25, 0, 1.0]])
        else:
            while True:
                L = np.eye(3) + rs.uniform(-0.3, 0.3, (3, 3))
                if np.linalg.det(L) > 0.5:
                    break
    L = L * sc
    if dyadic or rs.rand() < 0.5:
        # give the RECIPROCAL lattice directly (dyadic entries stay dyadic)
        return dict(kmax=None, recip_lattice=L), f"recip_lattice {kind} x{sc}"
    return dict(kmax=None, real_lattice=L * 2 * np.pi), f"real_lattice {kind} x{sc}"


def min_b_length(latt, dk):
    """length of the shortest finite-difference vector: min_i |recip_lattice[i]| * finite_diff_dk"""
    if latt.get("kmax") is not None:
        B = np.eye(3) * 2 * latt["kmax"]
    elif latt.get("recip_lattice") is not None:
        B = np.array(latt["recip_lattice"])
    else:
        B = 2 * np.pi * np.linalg.inv(np.array(latt["real_lattice"])).T
    return float(np.linalg.norm(B, axis=1).min() * (1e-4 if dk is None else dk))


def safe_dk(latt, dk=None):
    """a finite_diff_dk for which the shortest stencil vector is >= 4e-4 (outside the known-finding class)"""
    b = min_b_length(latt, dk)
    if b >= 4e-4:
        return dk
    return (1e-4 if dk is None else dk) * 4e-4 / b


def build_kp(ham, latt, cart, dk=None, levels=0):
    """SystemKP with analytic derivatives supplied up to `levels` (0 = Hamiltonian only)"""
    from wannierberri.system.system_kp import SystemKP
    kw = dict(latt)
    if dk is not None:
        kw["finite_diff_dk"] = dk
    with quiet():
        s = SystemKP(Ham=lambda q: ham(q), k_vector_cartesian=cart, **kw)
    if levels > 0:
        Cm = None if cart else s.recip_lattice_inv
        names = ["derHam", "der2Ham", "der3Ham"]
        an = {names[n - 1]: (lambda q, n=n: cart_tensor(ham, q, n, Cm)) for n in range(1, levels + 1)}
        with quiet():
            s = SystemKP(Ham=lambda q: ham(q), k_vector_cartesian=cart, **kw, **an)
    return s


class DerivBound:
    """entrywise bound on |numerical - analytic| derivative of order n for a SystemKP whose analytic derivatives are
    supplied up to `levels`:  proved truncation term (j/6)|D^(n+2)F| sum_b|w_b||b|^4  (exact for polynomials of degree
    <= 4; plus the next order for smooth Hamiltonians) + rounding 16 eps (sum_b|w_b||b|)^j max|base function|,
    j = n - levels stencil applications"""

    def __init__(self, ham, system, cart, levels, smooth=False):
        self.ham, self.levels, self.smooth = ham, levels, smooth
        bn = np.linalg.norm(system.bk_cart, axis=1)
        w = np.abs(system.wk)
        self.M4s, self.M6s, self.S1 = float((w * bn ** 4).sum()), float((w * bn ** 6).sum()), float((w * bn).sum())
        self.cn = 1.0 if cart else float(np.linalg.norm(system.recip_lattice_inv, 2))   # |dq| <= cn |dk_cart|

    def __call__(self, q, n):
        ham, levels, cn = self.ham, self.levels, self.cn
        j = n - levels
        if j <= 0:
            return 0.0
        Fmax = max(ham.absmax(q), 1e-3)
        base = max(ham.supnorm(q, levels) * cn ** levels, Fmax if levels == 0 else 0.0)
        trunc = (j / 6.0) * ham.supnorm(q, n + 2) * cn ** (n + 2) * self.M4s
        if self.smooth:
            trunc = 1.1 * trunc + j * ham.supnorm(q, n + 4) * cn ** (n + 4) * self.M6s / 60.0
        return trunc + 16 * EPS * self.S1 ** j * (base + 1e-3)


def build_kp_perturbed(ham, latt, cart, dk, bound, Z):
    """fully analytic SystemKP whose n-th derivative is  analytic + bound(q, n) * Z[n-1]  (Z: fixed tensors with
    entries of modulus <= sqrt 2, Hermitian in the band indices): a system whose derivatives deviate from the
    analytic ones by (up to) the proved finite-difference error, in a random direction"""
    from wannierberri.system.system_kp import SystemKP
    kw = dict(latt)
    if dk is not None:
        kw["finite_diff_dk"] = dk
    with quiet():
        s = SystemKP(Ham=lambda q: ham(q), k_vector_cartesian=cart, **kw)
    Cm = None if cart else s.recip_lattice_inv
    names = ["derHam", "der2Ham", "der3Ham"]
    an = {names[n - 1]: (lambda q, n=n: cart_tensor(ham, q, n, Cm) + bound(q, n) * Z[n - 1]) for n in (1, 2, 3)}
    with quiet():
        return SystemKP(Ham=lambda q: ham(q), k_vector_cartesian=cart, **kw, **an)


def rand_Z(rs, nw):
    Z = []
    for n in (1, 2, 3):
        A = rs.uniform(-1, 1, (nw, nw) + (3,) * n) + 1j * rs.uniform(-1, 1, (nw, nw) + (3,) * n)
        Z.append((A + np.conj(np.swapaxes(A, 0, 1))) / 2)
    return Z


# tolerance of a derived quantity = SENS_SAFETY x (largest response to NSAMP random perturbations of the derivatives of
# the size of the proved bound; for grid-integrated calculators the responses are accumulated k-point by k-point in
# absolute value).  Calibration on the unchanged code (thorough seeds 0-9 and quick seeds 0-25 of this oracle, about
# 2500 comparisons): largest observed |numeric - analytic| / response = 0.47, so the factor 10 leaves a margin > 20x;
# the ratio observed in a run is recorded in the evidence notes.
NSAMP = 4
SENS_SAFETY = 10.0


def stencil_rows(wk, bk_red, bk_cart):
    return ratss([[w] + list(br) + list(bc) for w, br, bc in zip(wk, bk_red, bk_cart)])


def poly_rows(ham, m, n, part):
    rows_ = []
    for e, A in ham.C.items():
        c = part(A[m, n])
        if c != 0:
            rows_.append([c, e[0], e[1], e[2]])
    return ratss(rows_) if rows_ else "0,0,0,0"


# --------------------------------------------------------------------------------------------
# correspondence

def corr(ctx):
    from wannierberri.system import system_kp  # noqa  (module under test)
    import importlib
    fd = importlib.import_module("wannierberri.system.__finite_differences")
    rng = ctx.rng
    rs = np.random.RandomState(rng.getrandbits(31))
    lines, checks = [], []

    def add(line, want, tol, what, sig, nontrivial):
        lines.append(line)
        checks.append((np.array(want, dtype=float).ravel(), tol, what, sig, nontrivial))

    eye3 = "1,0,0;0,1,0;0,0,1"
    # ---- A. the real Derivative3D class on dyadic stencils (any stencil, not only good ones), chained 1-3 times
    for it in range(ctx.n(14, 70)):
        nw = rng.randint(1, 2)
        deg = rng.randint(0, 4)
        ham = rand_polyham(rs, nw, deg, sparse=True, dyadic=True, rng=rng)
        nb = rng.randint(1, 5)
        wk = np.array([rng.randint(-6, 6) / 4.0 for _ in range(nb)])
        bk_red = np.array([[rng.randint(-4, 4) / 8.0 for _ in range(3)] for _ in range(nb)])
        bk_cart = np.array([[rng.randint(-4, 4) / 8.0 for _ in range(3)] for _ in range(nb)])
        k = np.array([rng.randint(-8, 8) / 16.0 for _ in range(3)])
        case = dict(what="Derivative3D", coef={str(e): A for e, A in ham.C.items()}, wk=wk, bk_red=bk_red, bk_cart=bk_cart, k=k)
        with ctx.attempt("Derivative3D", case):
            f0 = lambda kk: ham(np.array(kk))  # noqa
            D = [f0]
            for order in (1, 2, 3):
                D.append(fd.Derivative3D(D[-1], bk_red=bk_red, bk_cart=bk_cart, wk=wk))
            order = rng.randint(1, 3)
            val = D[order](k)
            ctx.count(f"corr.Derivative3D.order={order}.deg={deg}")
            if val.shape != (nw, nw) + (3,) * order:
                ctx.mismatch(f"Derivative3D order {order}: shape {val.shape}", case)
                continue
            m, n = rng.randint(0, nw - 1), rng.randint(0, nw - 1)
            comp = tuple(rng.randint(0, 2) for _ in range(3))
            for part, nm in ((np.real, "re"), (np.imag, "im")):
                add(f"d3d {order} 0 0 {stencil_rows(wk, bk_red, bk_cart)} {poly_rows(ham, m, n, part)} {eye3} {rats(k)} "
                    f"{comp[0]},{comp[1]},{comp[2]}",
                    part(val[(m, n) + comp[:order]]), 1e-12 * (1 + np.abs(val).max()), f"Derivative3D order {order} {nm}",
                    ("d3d", order, nm, m, n, comp, wk.tobytes(), bk_red.tobytes(), bk_cart.tobytes(), k.tobytes(),
                     tuple(sorted((e, A.tobytes()) for e, A in ham.C.items()))), deg >= 2 and nb >= 2)
    # ---- B. SystemKP end to end, with the code's own stencil (find_shells) and the wrap k_to_1BZ
    for it in range(ctx.n(14, 70)):
        nw = rng.randint(1, 2)
        deg = rng.randint(1, 4)
        ham = rand_polyham(rs, nw, deg, sparse=True, dyadic=True, rng=rng)
        latt, ldesc = lattice_spec(rs, dyadic=True)
        cart = rng.random() < 0.5
        dk = 2.0 ** (-rng.randint(5, 8))
        case = dict(what="SystemKP", coef={str(e): A for e, A in ham.C.items()}, lattice=ldesc, cart=cart, dk=dk)
        with ctx.attempt("SystemKP", case):
            s = build_kp(ham, latt, cart, dk=dk)
            reach = np.abs(s.bk_red).max()
            mode = rng.choice(["inside", "inside", "shifted", "boundary"])
            if mode == "inside":
                k = np.array([rng.randint(-6, 6) / 16.0 for _ in range(3)])
            elif mode == "shifted":   # outside the box: translated back by k_to_1BZ
                k = np.array([rng.randint(-6, 6) / 16.0 + rng.randint(-2, 2) for _ in range(3)])
            else:                     # on / next to the box boundary: model and code must still agree (both wrap)
                k = np.array([rng.choice([-0.5, 0.5, 0.5 - dk, -0.5 + dk / 2]), rng.randint(-6, 6) / 16.0, 0.5])
            order = rng.randint(1, 3)
            fun = [s.Ham, s.derHam, s.der2Ham, s.der3Ham][order]
            val = fun(k)
            S1 = float((np.abs(s.wk) * np.linalg.norm(s.bk_cart, axis=1)).sum())
            Fmax = ham.absmax(np.abs(s.recip_lattice).sum(axis=0) * 0.5 + 1 if cart else np.ones(3))
            tol = 16 * EPS * S1 ** order * (Fmax + 1)
            ctx.count(f"corr.SystemKP.order={order}.{mode}.{'cart' if cart else 'red'}.nb={len(s.wk)}")
            m, n = rng.randint(0, nw - 1), rng.randint(0, nw - 1)
            B = ratss(s.recip_lattice)
            comp = tuple(rng.randint(0, 2) for _ in range(3))
            for part, nm in ((np.real, "re"), (np.imag, "im")):
                add(f"d3d {order} 1 {int(cart)} {stencil_rows(s.wk, s.bk_red, s.bk_cart)} {poly_rows(ham, m, n, part)} {B} {rats(k)} "
                    f"{comp[0]},{comp[1]},{comp[2]}",
                    part(val[(m, n) + comp[:order]]), tol, f"SystemKP.{['Ham', 'derHam', 'der2Ham', 'der3Ham'][order]} {nm} ({ldesc}, {mode})",
                    ("kp", order, nm, m, n, comp, ldesc, cart, dk, k.tobytes(),
                     tuple(sorted((e, A.tobytes()) for e, A in ham.C.items()))), deg >= 2)
    # ---- C. find_shells itself: the model (exact kernels: pseudo-inverse weights by Gaussian elimination on the Gram
    #         matrix, exact parallelism test, shells = equal squared lengths) against the real function
    shell_lines, shell_expect = [], []
    for it in range(ctx.n(5, 30)):
        latt, ldesc = lattice_spec(rs, dyadic=True)
        dk = 2.0 ** (-rng.randint(4, 7))
        if "kmax" in latt and latt["kmax"] is not None:
            B = np.eye(3) * 2 * latt["kmax"]
        else:
            B = np.array(latt["recip_lattice"], dtype=float)
        basis = B * dk
        case = dict(what="find_shells", lattice=ldesc, dk=dk, basis=basis)
        with ctx.attempt("find_shells", case):
            wk, bki = fd.find_shells(basis)
            ctx.count(f"corr.find_shells.nb={len(wk)}")
            shell_lines.append(f"fshells 3 {ratss(basis)} 1/100000 1/100000000 50")
            shell_expect.append((sorted((tuple(int(x) for x in b), float(w)) for w, b in zip(wk, bki)), case))
    out_sh = ctx.lean(shell_lines)
    for l, o, (want, case) in zip(shell_lines, out_sh, shell_expect):
        ctx.case(signature=("fshells", l), nontrivial=len(want) > 6)
        if o in ("bad-op", "none"):
            ctx.mismatch(f"find_shells: model returned {o}, code returned {len(want)} vectors", dict(case, line=l))
            continue
        got = sorted((tuple(int(x) for x in t.split(",")[1:]), float(Fr(t.split(",")[0]))) for t in o.split(";"))
        if [g[0] for g in got] != [w_[0] for w_ in want]:
            ctx.mismatch("find_shells: model and code select different vectors", dict(case, model=got[:30], code=want[:30]))
        elif max(abs(g[1] - w_[1]) / abs(w_[1]) for g, w_ in zip(got, want)) > 1e-9:
            ctx.mismatch("find_shells: model and code weights differ", dict(case, model=got[:30], code=want[:30]))
    out = ctx.lean(lines)
    worst = 0.0
    for l, o, (want, tol, what, sig, nt) in zip(lines, out, checks):
        ctx.case(signature=sig, nontrivial=nt)
        if o == "bad-op":
            ctx.mismatch("model rejected the line", dict(line=l[:400]))
            continue
        got = np.array([float(Fr(o))])
        if got.shape != want.shape:
            ctx.mismatch(f"{what}: shapes {got.shape} vs {want.shape}", dict(line=l[:400]))
            continue
        d = float(np.abs(got - want).max())
        worst = max(worst, d / tol)
        if d > tol:
            ctx.mismatch(f"{what}: model and code differ by {d:.3e} (tolerance {tol:.1e})",
                         dict(line=l[:3000], model=o[:600], code=want[:27]))
    ctx.note(f"corr: largest |model-code|/tolerance = {worst:.3g}")
    if lines:
        ctx.sample(dict(protocol_line=lines[0][:300], model=out[0][:200]))
        ctx.sample(dict(protocol_line=lines[-1][:300], model=out[-1][:200]))


# --------------------------------------------------------------------------------------------
# oracle

def stencil_contract(wk, bk_cart):
    """the two hypotheses of the theorems, on the real find_shells output; returns message or None"""
    M2 = np.einsum("b,ba,bc->ac", wk, bk_cart, bk_cart)
    if np.abs(M2 - np.eye(3)).max() > 1e-9:
        return f"sum_b w_b b_a b_c != delta_ac (off by {np.abs(M2 - np.eye(3)).max():.2e})"
    sc = np.abs(bk_cart).max()
    used = np.zeros(len(wk), dtype=bool)
    for i, (w, b) in enumerate(zip(wk, bk_cart)):
        j = [j for j in range(len(wk)) if not used[j] and np.abs(bk_cart[j] + b).max() < 1e-9 * sc
             and abs(wk[j] - w) < 1e-9 * abs(w)]
        if not j:
            return f"stencil is not closed under b -> -b (vector {b}, weight {w})"
        used[j[0]] = True
    return None


def oracle(ctx, scale):
    rs = np.random.RandomState(ctx.rng.getrandbits(31))
    oracle_derivs(ctx, scale, rs)
    oracle_calculators(ctx, scale, rs)


def bravais_tour(rs):
    """classic Bravais lattices given as REAL lattices (kmax=None) + a random unimodular distortion; visited on every
    run so that non-orthogonal stencils (shells containing b_i - b_j, i.e. +-pairs whose reduced components sum to 0)
    are always exercised"""
    a = 2 * np.pi
    hex120 = np.array([[1, 0, 0], [-0.5, np.sqrt(3) / 2, 0], [0, 0, 1.3]]) * a
    bcc = np.array([[-1, 1, 1], [1, -1, 1], [1, 1, -1]]) / 2.0 * a * 1.2
    fcc = np.array([[0, 1, 1], [1, 0, 1], [1, 1, 0]]) / 2.0 * a * 1.5
    rhomb = (np.eye(3) + 0.25 * (np.ones((3, 3)) - np.eye(3))) * a
    U = np.eye(3, dtype=int)
    for _ in range(4):      # random unimodular integer matrix
        i, j = rs.choice(3, 2, replace=False)
        U[i] += int(rs.choice([-1, 1])) * U[j]
    uni = U.dot(np.diag([1.0, 1.1, 0.9])) * a
    return [(dict(kmax=None, real_lattice=L), nm) for L, nm in
            ((hex120, "real_lattice hexagonal 120deg"), (bcc, "real_lattice bcc"), (fcc, "real_lattice fcc"),
             (rhomb, "real_lattice rhombohedral"), (uni, "real_lattice unimodular distortion"))]


def oracle_derivs(ctx, scale, rs):
    worst = [0.0, 0.0, 0.0]
    tour = bravais_tour(rs)
    for it in range(ctx.n(10, 120) * scale + len(tour)):
        nw = int(rs.randint(1, 4))
        smooth = rs.rand() < 0.2
        deg = int(rs.randint(0, 5))
        ham = rand_trigham(rs, nw) if smooth else rand_polyham(rs, nw, deg, sparse=rs.rand() < 0.5)
        latt, ldesc = lattice_spec(rs)
        cart = bool(rs.rand() < 0.5)
        dk = [None, None, None, 3e-5, 1e-3, 1e-3, 1e-2][int(rs.randint(0, 7))]
        levels = int(rs.choice([0, 0, 0, 1, 2]))
        if it < len(tour):      # the Bravais tour: fully numerical derivatives of a cubic polynomial, array-valued (nw >= 2)
            latt, ldesc = tour[it]
            nw, smooth, deg, levels, dk = 2, False, 3, 0, safe_dk(latt)
            ham = rand_polyham(rs, nw, deg)
        if rs.rand() < 0.05:   # very small reciprocal box (find_shells uses absolute thresholds)
            latt, ldesc = dict(kmax=float(rs.choice([0.05, 0.02, 0.01]))), "kmax small"
            dk = None
        # input class of the known finding: shortest finite-difference vector |b| = min_i |recip_i| * finite_diff_dk with
        # |b|^2 below ~1e-7, the ABSOLUTE singular-value threshold of check_B1 (i.e. |b| < 3.2e-4)
        small = min_b_length(latt, dk) < 3.2e-4
        case = dict(what="SystemKP derivatives", nw=nw, kind="trig" if smooth else f"poly deg {deg}", lattice=ldesc,
                    lattice_kwargs={k: v for k, v in latt.items()}, k_vector_cartesian=cart, finite_diff_dk=dk,
                    analytic_levels=levels,
                    coef=({str(e): A for e, A in ham.C.items()} if not smooth else
                          dict(A0=ham.A0, terms=[dict(A=A, B=B, p=p) for A, B, p in ham.terms])))
        if small:
            # the construction may raise (known finding); if it does, record it and retry with a 10x larger dk so that
            # the derivative checks below still see this lattice
            try:
                build_kp(ham, latt, cart, dk=dk, levels=0)
                ctx.count("oracle.small-b.constructed")
            except TypeError as e:
                ctx.count("oracle.small-b.TypeError")
                ctx.fail(f"SystemKP construction raised TypeError ({e}) in find_shells", case, kf=KF_SMALL)
                dk = 10 * (1e-4 if dk is None else dk)
                case = dict(case, finite_diff_dk=dk, note="retried with 10x finite_diff_dk after the known TypeError")
                small = min_b_length(latt, dk) < 3.2e-4
        with ctx.attempt("SystemKP (construction / derivatives)", case, kf=KF_SMALL if small else None):
            s = build_kp(ham, latt, cart, dk=dk, levels=levels)
            ctx.count(f"oracle.{'trig' if smooth else 'poly'}.{'cart' if cart else 'red'}.levels={levels}.nb={len(s.wk)}")
            bki = np.round(s.bk_red / (1e-4 if dk is None else dk)).astype(int)
            ctx.count("oracle.stencil." + ("has +-b pairs with sum(b_reduced)=0" if np.any(bki.sum(axis=1) == 0)
                                           else "all pairs have sum(b_reduced)!=0"))
            msg = stencil_contract(s.wk, s.bk_cart)
            if msg:
                ctx.fail("find_shells: " + msg, case, kf=KF_SMALL if small else None)
                continue
            if np.abs(s.bk_cart - s.bk_red.dot(s.recip_lattice)).max() > 1e-12 * np.abs(s.bk_cart).max():
                ctx.fail("SystemKP: bk_cart != bk_red . recip_lattice", case)
            Cm = None if cart else s.recip_lattice_inv
            bound = DerivBound(ham, s, cart, levels, smooth)
            S1 = bound.S1
            reach = 3 * np.abs(s.bk_red).max(axis=0) + 1e-9
            for ik in range(3):
                if np.any(reach > 0.45):
                    break
                k = rs.uniform(-0.5 + reach, 0.5 - reach)
                if ik == 2:
                    k = k + rs.randint(-2, 3, 3)     # a translated copy: k_to_1BZ brings it back
                q = s.k_ham_from_red(k)
                num = [None, s.derHam(k), s.der2Ham(k), s.der3Ham(k)]
                Fmax = max(ham.absmax(q), 1e-3)
                for n in (1, 2, 3):
                    ana = cart_tensor(ham, q, n, Cm)
                    j = n - levels          # number of stencil applications on top of the analytic base
                    if j <= 0:
                        tol = 1e-12 * (1 + np.abs(ana).max())
                    else:
                        tol = bound(q, n)
                        err = float(np.abs(num[n] - ana).max())
                        worst[n - 1] = max(worst[n - 1], err / tol)
                    ctx.case(signature=("der", it, ik, n), nontrivial=(smooth or deg >= 2) and (len(s.wk) > 6 or not cart or nw >= 2))
                    if num[n].shape != ana.shape:
                        ctx.fail(f"der{n}Ham has shape {num[n].shape}", dict(case, k=k))
                        continue
                    err = float(np.abs(num[n] - ana).max())
                    if err > tol:
                        ctx.fail(f"numerical derivative of order {n} ({j} stencil levels) differs from the analytic one by "
                                 f"{err:.3e} > {tol:.3e} (finite-difference accuracy)", dict(case, k=k, numeric=num[n], analytic=ana))
                    herm = float(np.abs(num[n] - np.conj(np.swapaxes(num[n], 0, 1))).max())
                    htol = 16 * EPS * S1 ** max(j, 0) * (Fmax + np.abs(ana).max() + 1e-3)
                    if herm > htol:
                        ctx.fail(f"numerical derivative of order {n} is not Hermitian ({herm:.3e} > {htol:.1e})", dict(case, k=k))
                    if n >= 2 and j >= 1:
                        # mixed partial derivatives commute for the analytic tensor; the numerical one must agree within tol
                        sym = float(np.abs(num[n] - np.swapaxes(num[n], -1, -2)).max())
                        if sym > 2 * tol:
                            ctx.fail(f"numerical derivative of order {n}: last two Cartesian indices not symmetric ({sym:.3e})",
                                     dict(case, k=k))
    ctx.note("oracle: largest error/tolerance for derHam, der2Ham, der3Ham = " + ", ".join(f"{x:.3g}" for x in worst))


def oracle_calculators(ctx, scale, rs):
    """every calculator: numeric-derivative system vs analytic-derivative system.  The allowed difference is DERIVED:
    the numeric derivatives deviate from the analytic ones by at most DerivBound (proved truncation term + rounding),
    so the result may deviate by (sensitivity of the result to such a deviation) - measured by evaluating the same
    quantity on analytic systems whose derivatives are perturbed by the bound in NSAMP random directions - times the
    safety factor SENS_SAFETY.  Energy denominators are part of the measured sensitivity; k-points / grids with a
    gap below 0.3 are left out."""
    from ..wbsys import wb
    calc = wb.calculators
    static = ["DOS", "CumDOS", "AHC", "Ohmic_FermiSea", "Ohmic_FermiSurf", "Hall_classic_FermiSea",
              "Hall_classic_FermiSurf", "BerryDipole_FermiSea", "BerryDipole_FermiSurf", "NLDrude_FermiSea",
              "QuantumMetric_FermiSea", "Morb"]
    tabs = ["Velocity", "InvMass", "Der3E", "BerryCurvature", "DerBerryCurvature", "OrbitalMoment"]
    worst = 0.0
    for it in range(ctx.n(2, 8) * scale):
        nw = 2
        deg = int(rs.randint(2, 5))
        ham = rand_polyham(rs, nw, deg, sparse=True)
        # a mass term keeps the two bands apart (results depend on 1/gap)
        ham.C[(0, 0, 0)] = ham.C.get((0, 0, 0), 0) + np.diag([2.5, -2.5])
        latt, ldesc = lattice_spec(rs)
        cart = bool(rs.rand() < 0.5)
        dk = safe_dk(latt)     # default finite_diff_dk unless that falls into the known-finding class
        case = dict(what="calculators numeric vs analytic derivatives", lattice=ldesc, finite_diff_dk=dk, k_vector_cartesian=cart,
                    deg=deg, lattice_kwargs={k: v for k, v in latt.items()}, coef={str(e): A for e, A in ham.C.items()})
        with ctx.attempt("calculators on SystemKP", case):
            lv = int(rs.randint(1, 3))
            systems = {"numeric": build_kp(ham, latt, cart, dk=dk, levels=0),
                       f"analytic-to-level-{lv}": build_kp(ham, latt, cart, dk=dk, levels=lv)}
            s0 = systems["numeric"]
            s3 = build_kp(ham, latt, cart, dk=dk, levels=3)
            # the bound for the fully numerical system also bounds the partially analytic ones (fewer stencil levels)
            bound = DerivBound(ham, s0, cart, 0)
            perturbed = [build_kp_perturbed(ham, latt, cart, dk, bound, rand_Z(rs, nw)) for _ in range(NSAMP)]
            NK = 3
            kpts = np.array(list(itertools.product(range(NK), repeat=3))) / NK
            E = np.array([np.linalg.eigvalsh(ham(s0.k_ham_from_red(k))) for k in kpts])
            gap = float(np.min(np.diff(E, axis=1)))
            ctx.count("oracle.calc.gapped" if gap > 0.3 else "oracle.calc.small-gap")
            if gap >= 0.3:
                Ef = np.linspace(E.min() - 0.1, E.max() + 0.1, 7)
                names = list(rs.choice(static, 4, replace=False))

                def run(s):
                    with quiet():
                        grid = wb.Grid(s, NK=NK, NKFFT=1)
                        r = wb.run(s, grid=grid, calculators={nm: getattr(calc.static, nm)(Efermi=Ef) for nm in names},
                                   parallel=False, adpt_num_iter=0, use_irred_kpt=False, symmetrize=False,
                                   print_progress_step_time=1e9)
                    return {nm: r.results[nm].data for nm in names}

                def at_k(s, kp):
                    with quiet():
                        r = wb.evaluate_k(s, k=kp, calculators={nm: getattr(calc.static, nm)(Efermi=Ef) for nm in names},
                                          return_single_as_dict=True)
                    return {nm: r[nm].data for nm in names}
                # the result is the k-average of single-k contributions.  The finite-difference error is systematic
                # (same sign at neighbouring k), a random perturbation is not: responses are therefore accumulated
                # k-point by k-point in ABSOLUTE value (no cancellation between k-points), and so is the natural scale
                sens = {nm: 0.0 for nm in names}
                absscale = {nm: 0.0 for nm in names}
                for kp in kpts:
                    rk = at_k(s3, kp)
                    pk = [at_k(sp, kp) for sp in perturbed]
                    for nm in names:
                        sens[nm] += max(float(np.abs(p_[nm] - rk[nm]).max()) for p_ in pk) / len(kpts)
                        absscale[nm] += float(np.abs(rk[nm]).max()) / len(kpts)
                ref = run(s3)
                for tag, s in systems.items():
                    got = run(s)
                    for nm in names:
                        floor = 1e-10 * max(float(np.abs(ref[nm]).max()), absscale[nm]) + 1e-300
                        tol = SENS_SAFETY * sens[nm] + floor
                        d = float(np.abs(got[nm] - ref[nm]).max()) if got[nm].shape == ref[nm].shape else np.inf
                        worst = max(worst, d / (sens[nm] + floor))
                        ctx.case(signature=("calc", it, nm, tag), nontrivial=True)
                        ctx.count(f"oracle.calc.{nm}")
                        if d > tol:
                            ctx.fail(f"calculator {nm}: {tag} derivatives give a result differing by {d:.3e} from the "
                                     f"analytic-derivative run; allowed {tol:.1e} = {SENS_SAFETY:g} x response {sens[nm]:.1e} to a "
                                     f"derivative error of the proved size (max |result| {np.abs(ref[nm]).max():.3e})",
                                     dict(case, Efermi=Ef, NK=NK))
            for nm in rs.choice(tabs, 3, replace=False):
                k = rs.uniform(-0.3, 0.3, 3)
                Ek = np.linalg.eigvalsh(ham(s0.k_ham_from_red(k)))
                if float(np.min(np.diff(Ek))) < 0.3:
                    ctx.count("oracle.tab.small-gap(skipped)")
                    continue

                def tab(s):
                    with quiet():
                        return wb.evaluate_k(s, k=k, calculators={nm: getattr(calc.tabulate, nm)()}).data
                b = tab(s3)
                pert = [tab(sp) for sp in perturbed]
                sens = max(float(np.abs(pr - b).max()) for pr in pert)
                floor = 1e-10 * max(float(np.abs(b).max()), max(float(np.abs(pr).max()) for pr in pert)) + 1e-300
                tol = SENS_SAFETY * sens + floor
                for tag, s in systems.items():
                    a = tab(s)
                    d = float(np.abs(a - b).max()) if a.shape == b.shape else np.inf
                    worst = max(worst, d / (sens + floor))
                    ctx.case(signature=("tab", it, nm, tag), nontrivial=True)
                    ctx.count(f"oracle.tab.{nm}")
                    if d > tol:
                        ctx.fail(f"tabulator {nm}: {tag} derivatives differ by {d:.3e} from the analytic ones; allowed {tol:.1e} = "
                                 f"{SENS_SAFETY:g} x response {sens:.1e} to a derivative error of the proved size", dict(case, k=k))
    ctx.note(f"oracle: largest |numeric - analytic| / (response to the proved derivative error) over calculators and "
             f"tabulators = {worst:.3g} (allowed {SENS_SAFETY:g})")


def replay(ctx, case):
    oracle(ctx, 1)
