"""C16 - result objects behave as vectors and survive saving."""
import os
import numpy as np

from ..common import rats, ints, ratss, intss, quiet

PID = "C16"
CLAIM = dict(
    design="3/C16",
    technique="Lean 4 proof over a field-polymorphic model of EnergyResult / VoidResult / K__Result / ResultDict "
              "arithmetic, PointSymmetry.transform_tensor + Transform.__call__, and as_dict / from_npz (arrays = "
              "functions of the multi-index, conjugation = any ring endomorphism) + bit-exact differential "
              "correspondence at the Gaussian rationals on dyadic data and integer symmetry matrices + property oracle "
              "on the real objects (numpy reference algebra, real save/load through files)",
    text="Theorems (any field, all shapes/ranks/sizes): EnergyResult * / + - act element-wise and keep energies, rank, "
         "transformations, smoothers, titles; + is defined exactly under the code's guards; a-b = a+(-1)b; "
         "distributivity, compatibility, unit, commutativity and associativity on the data; mul_array distributes over +; "
         "VoidResult is neutral for + (both sides; 0, None and Void also on the right of k-resolved results and dictionaries, so "
         "sum([...]) works), absorbing for * / "
         "transform, Void-x = (-1)x, x-Void = x; transform_tensor (rotation of every tensor axis, transposition / swap, "
         "conjugation, sign) is additive and commutes with every scalar fixed by the conjugation, hence "
         "transform(a)+transform(b) is defined and equals transform(a+b) for energy results and for k-resolved results; "
         "K__Result + is the concatenation of the k-point blocks (data of a followed by data of b, elements untouched), "
         "* and - are element-wise; ResultDict + has exactly the common keys with entry-wise sums, * scales every entry; "
         "from_npz(as_dict(r)) returns the energies, data, shape, rank, both transformations with all four attributes, "
         "comment and titles of r (smoothers void, default save mode), Void round-trips to Void.",
    note="Trusted: Lean kernel + Mathlib; the harness; numpy element-wise arithmetic, matmul/transpose/swapaxes/conj, "
         "np.savez_compressed/np.load/pickle and the file system.  Observation recorded as a note, not claimed: "
         "Transform.__eq__ ignores swap_axes (proved: transform_eq_ignores_swap).",
)
TRUSTED = [
    "modelled: EnergyResult.__add__/__mul__/__truediv__/__sub__/mul_array/transform/as_dict/from_npz and the title "
    "normalisation of __init__; VoidResult; K__Result.__add__/__mul__/__truediv__/__sub__/add/transform/data; "
    "ResultDict.__add__/__mul__/__truediv__/__sub__/transform; PointSymmetry.__init__ (Inv, proper part) and "
    "transform_tensor; Transform.__call__/__eq__/as_dict; transform_from_dict",
    "np.savez_compressed / np.load (pickled object arrays for the Transform dictionaries) and the file system: the "
    "model's dictionary is the file content; the oracle goes through real files",
    "tolerance-guarded comparison norm(E-E') > 1e-8 is modelled exactly; generated energies differ by 0, 2^-40 or 2^-10",
    "the smoothers of a result enter the model only through their equality classes (AbstractSmoother.__eq__)",
    "not modelled: savetxt, savedata file naming (oracle only), TABresult, K__Result.to_grid/select_bands (see C30)",
]
RULE = ("results with 0-3 energy axes (odd and even lengths incl. 1), tensor ranks 0-3, real and complex dyadic data, "
        "transforms with every combination of factor/conj/transpose_axes/swap_axes, void / equal / different smoothers, "
        "equal / slightly different / different energies, integer (corr) and real (oracle) symmetry operations with and "
        "without inversion and time reversal; non-trivial = the operation involves at least one non-void result with "
        "more than one element; distinct = distinct protocol line (corr) or (operation, shapes, data) (oracle)")



# --------------------------------------------------------------------------------------------
# generators built on the repository's own classes

def imports():
    with quiet():
        from wannierberri.result import EnergyResult, KBandResult, ResultDict
        from wannierberri.result.result import VoidResult
        from wannierberri.symmetry.point_symmetry import Transform, PointSymmetry
        from wannierberri.smoother import GaussianSmoother, FermiDiracSmoother, VoidSmoother
    return dict(EnergyResult=EnergyResult, KBandResult=KBandResult, ResultDict=ResultDict, VoidResult=VoidResult,
                Transform=Transform, PointSymmetry=PointSymmetry, GaussianSmoother=GaussianSmoother,
                FermiDiracSmoother=FermiDiracSmoother, VoidSmoother=VoidSmoother)


def rand_perm(rng, m):
    p = list(range(m))
    rng.shuffle(p)
    return tuple(p)


def rand_transform(rng, W, rank, ndim):
    kind = rng.choice(["plain", "plain", "transpose", "transpose", "swap"])
    factor = rng.choice([1, -1])
    conj = rng.random() < 0.4
    if kind == "transpose" and rank >= 2:
        return W["Transform"](factor=factor, conj=conj, transpose_axes=rand_perm(rng, rng.randint(2, rank)))
    if kind == "swap" and rank >= 2:
        i, j = rng.sample(range(ndim - rank, ndim), 2)
        return W["Transform"](factor=factor, conj=conj, swap_axes=(i, j))
    return W["Transform"](factor=factor, conj=conj)


def ttok(t):
    if t is None:
        return "N"
    tr = "N" if t.transpose_axes is None else ints(t.transpose_axes)
    sw = "N" if t.swap_axes is None else ints(t.swap_axes)
    return f"{int(t.factor)}:{int(bool(t.conj))}:{tr}:{sw}"


def tattrs(t):
    return None if t is None else (int(t.factor), bool(t.conj),
                                   None if t.transpose_axes is None else tuple(int(x) for x in t.transpose_axes),
                                   None if t.swap_axes is None else tuple(int(x) for x in t.swap_axes))


def rand_data(rng, shape, cplx, bits=6):
    n = int(np.prod(shape)) if len(shape) else 1
    re = np.array([rng.randint(-2 ** bits, 2 ** bits) / 4 for _ in range(n)], dtype=float)
    if cplx:
        im = np.array([rng.randint(-2 ** bits, 2 ** bits) / 4 for _ in range(n)], dtype=float)
        return (re + 1j * im).reshape(shape)
    return re.reshape(shape)


def dyadic_grid(rng, n):
    dE = 2.0 ** rng.choice([-4, -3, -2, -1])
    return rng.randint(-8, 8) * dE + dE * np.arange(n)


COMMENTS = ["undocumented", "AHC", "x", "Ohmic_FermiSea", "a-longer-comment_with.symbols:1/2", "cmt7", "ABCDEFG"]


class Gen:
    """random EnergyResults sharing a pool of smoothers so that equality classes are meaningful"""

    def __init__(self, rng, W):
        self.rng, self.W = rng, W
        self.classes = []   # representatives of smoother equality classes; tag = index + 1, void = 0

    def tag(self, s):
        if s is None or isinstance(s, self.W["VoidSmoother"]):
            return 0
        for i, c in enumerate(self.classes):
            # AbstractSmoother.__eq__ raises for energy grids of different length (np.allclose cannot broadcast)
            if type(c) is type(s) and len(c.E) == len(s.E) and c == s:
                return i + 1
        self.classes.append(s)
        return len(self.classes)

    def smoother(self, E):
        rng = self.rng
        k = rng.choice(["void", "void", "g1", "g2", "fd"])
        if k == "void" or len(E) < 2:
            return None
        dE = E[1] - E[0]
        if k == "fd":
            return self.W["FermiDiracSmoother"](E, 2.0 * dE * 11604.518)
        return self.W["GaussianSmoother"](E, dE * (1.5 if k == "g1" else 2.5))

    def eres(self, nE=None, rank=None, cplx=None, none_transforms=False):
        rng, W = self.rng, self.W
        nE = rng.choice([0, 1, 1, 2, 2, 3]) if nE is None else nE
        rank = rng.choice([0, 1, 2, 3] if nE < 3 else [0, 1, 2]) if rank is None else rank
        if nE + rank == 0:
            rank = 1
        cplx = (rng.random() < 0.4) if cplx is None else cplx
        shape = [rng.choice([1, 2, 3, 4, 5]) for _ in range(nE)] + [3] * rank
        Es = [dyadic_grid(rng, shape[i]) for i in range(nE)]
        ndim = nE + rank
        tTR = rand_transform(rng, W, rank, ndim)
        tInv = rand_transform(rng, W, rank, ndim)
        if none_transforms:
            if rng.random() < 0.6:
                tTR = None
            if rng.random() < 0.6:
                tInv = None
        sms = [self.smoother(E) for E in Es]
        titles = rng.choice([("Efermi", "Omega"), ("Efermi",), ("a", "b", "c", "d"), ()])
        r = W["EnergyResult"](Es, rand_data(rng, shape, cplx), smoothers=sms, transformTR=tTR, transformInv=tInv,
                              rank=rank, E_titles=list(titles), comment=rng.choice(COMMENTS),
                              save_mode=rng.choice(["bin+txt", "bin", "txt", "none"]))
        return r

    def like(self, a, perturb=True):
        """a result compatible with `a` (same energies, transforms, smoothers) - optionally perturbed so that the
        guards of + are exercised"""
        rng, W = self.rng, self.W
        Es = [E.copy() for E in a.Energies]
        sms = list(a.smoothers)
        tTR, tInv = a.transformTR, a.transformInv
        what = "ok"
        if perturb:
            what = rng.choice(["ok"] * 6 + ["tiny-dE", "dE", "smoother", "transform", "swap-only", "transform-none"])
        if what == "tiny-dE" and Es:
            Es[rng.randrange(len(Es))] += 2.0 ** -40
        elif what == "dE" and Es:
            i = rng.randrange(len(Es))
            Es[i] = Es[i] + 2.0 ** -10 * (np.arange(len(Es[i])) % 2 + 1)
        elif what == "smoother" and Es:
            i = rng.randrange(len(Es))
            E = Es[i]
            sms[i] = W["GaussianSmoother"](E, (E[1] - E[0]) * 3.5) if len(E) >= 2 and self.tag(sms[i]) == 0 else None
        elif what == "transform":
            if rng.random() < 0.5:
                tTR = W["Transform"](factor=-tTR.factor, conj=tTR.conj, transpose_axes=tTR.transpose_axes,
                                     swap_axes=tTR.swap_axes) if tTR is not None else tTR
            else:
                tInv = W["Transform"](factor=tInv.factor, conj=not tInv.conj, transpose_axes=tInv.transpose_axes,
                                      swap_axes=tInv.swap_axes) if tInv is not None else tInv
        elif what == "transform-none":
            tTR = None
        elif what == "swap-only" and tTR is not None and tTR.swap_axes is not None:
            pass  # same object: nothing to vary without leaving the domain of T3c (see swap probe in the oracle)
        cplx = np.iscomplexobj(a.data) if rng.random() < 0.8 else (rng.random() < 0.5)
        b = W["EnergyResult"](Es, rand_data(rng, a.data.shape, cplx), smoothers=sms, transformTR=tTR,
                              transformInv=tInv, rank=a.rank, E_titles=list(a.E_titles),
                              comment=rng.choice(COMMENTS), save_mode=rng.choice(["bin+txt", "bin", "txt", "none"]))
        return b, what


def mode_tok(r):
    b, t = "bin" in r.save_mode, "txt" in r.save_mode
    return "bt" if b and t else "b" if b else "t" if t else "n"


def arr_toks(data):
    data = np.asarray(data)
    re = rats(np.real(data).reshape(-1))
    im = rats(np.imag(data).reshape(-1)) if np.iscomplexobj(data) else rats(np.zeros(data.size))
    return re, im


def res_tok(r, gen):
    if isinstance(r, gen.W["VoidResult"]):
        return "V"
    data = np.asarray(r.data)
    re, im = arr_toks(data)
    titles = ",".join(str(t) for t in r.E_titles) if len(r.E_titles) else "_"
    return " ".join(["E", ints(data.shape), ratss(r.Energies), re, im, ints([gen.tag(s) for s in r.smoothers]),
                     ttok(r.transformTR), ttok(r.transformInv), str(int(r.rank)), titles, mode_tok(r),
                     str(r.comment)])


ERRS = {AssertionError: "err:assertion", RuntimeError: "err:runtime", AttributeError: "err:attribute",
        TypeError: "err:type", KeyError: "err:key"}


def run_op(f, render):
    try:
        out = f()
    except Exception as e:  # noqa
        for cls, tok in ERRS.items():
            if isinstance(e, cls):
                return tok
        return f"err:other:{type(e).__name__}"
    try:
        return render(out)
    except Exception as e:  # noqa  (the code returned something that is not a result of the expected kind)
        return f"unrenderable:{type(out).__name__}:{type(e).__name__}"



INT_MATS = None


def int_matrices():
    """all 48 signed permutation matrices + a few non-orthogonal integer/dyadic matrices (exact arithmetic)"""
    global INT_MATS
    if INT_MATS is None:
        import itertools
        mats = []
        for p in itertools.permutations(range(3)):
            for s in itertools.product([1, -1], repeat=3):
                M = np.zeros((3, 3))
                for i in range(3):
                    M[i, p[i]] = s[i]
                mats.append(M)
        mats += [np.array([[1., 1, 0], [0, 1, 0], [0, 0, 1]]), np.array([[2., 0, 1], [0, -1, 0], [1, 0, 0.5]]),
                 np.array([[0., 1, 1], [1, 0, 1], [1, 1, 0]]), np.array([[0.5, 0, 0], [0, 2, 0.25], [0, 1, -1]])]
        INT_MATS = mats
    return INT_MATS


def sym_toks(M, TR):
    return f"{rats(M.reshape(-1))} {int(TR)}"


def k_toks(k):
    """tokens of a K result BEFORE its .data property is touched (which merges the block list)"""
    blocks = [np.asarray(d) for d in k.data_list]
    res, ims = zip(*[arr_toks(b) for b in blocks])
    return " ".join([str(blocks[0].ndim), str(blocks[0].shape[1]), str(int(k.rank)), ttok(k.transformTR),
                     ttok(k.transformInv), intss([b.shape for b in blocks]), ";".join(res), ";".join(ims)])


def k_render(k):
    nblocks = len(k.data_list)
    data = np.asarray(k.data)
    re, im = arr_toks(data)
    return f"K {ints(data.shape)} {re} {im} {nblocks} {int(k.rank)} {ttok(k.transformTR)} {ttok(k.transformInv)}"


def rand_kres(rng, W, nband=None, rank=None, cplx=None, tTR=None, tInv=None, nblocks=None):
    nband = rng.choice([1, 2, 3, 4]) if nband is None else nband
    rank = rng.choice([0, 1, 2, 3]) if rank is None else rank
    cplx = (rng.random() < 0.4) if cplx is None else cplx
    nblocks = rng.choice([1, 1, 2, 3]) if nblocks is None else nblocks
    ndim = 2 + rank
    tTR = rand_transform(rng, W, rank, ndim) if tTR is None else tTR
    tInv = rand_transform(rng, W, rank, ndim) if tInv is None else tInv
    blocks = [rand_data(rng, [rng.choice([1, 2, 3])] + [nband] + [3] * rank, cplx) for _ in range(nblocks)]
    return W["KBandResult"](blocks, transformTR=tTR, transformInv=tInv)


# --------------------------------------------------------------------------------------------
def corr(ctx):
    W = imports()
    rng = ctx.rng
    gen = Gen(rng, W)
    lines, expect, cases = [], [], []

    def emit(line, exp, what, case=None):
        lines.append(line)
        expect.append(exp)
        cases.append((what, case))
        ctx.count(f"corr.{what}")

    render = lambda r: res_tok(r, gen)  # noqa
    V = W["VoidResult"]

    # ---- arithmetic of results ----------------------------------------------------------------
    for it in range(ctx.n(50, 600)):
        with ctx.attempt("correspondence section: building / operating on real objects", dict(iteration=it)):
            a = gen.eres()
            b, what = gen.like(a)
            ta, tb = res_tok(a, gen), res_tok(b, gen)
            emit(f"add {ta} {tb}", run_op(lambda: a + b, render), f"E+E[{what}]")
            emit(f"sub {ta} {tb}", run_op(lambda: a - b, render), "E-E")
            k = rng.choice(["EV", "VE", "E0", "EN", "VV", "subEV", "subVE", "subVV"])
            if k == "EV":
                emit(f"add {ta} V", run_op(lambda: a + V(), render), "E+Void")
            elif k == "VE":
                emit(f"add V {ta}", run_op(lambda: V() + a, render), "Void+E")
            elif k == "E0":
                emit(f"add {ta} Z", run_op(lambda: a + 0, render), "E+0")
            elif k == "EN":
                emit(f"add {ta} NONE", run_op(lambda: a + None, render), "E+None")
            elif k == "VV":
                emit("add V V", run_op(lambda: V() + V(), render), "Void+Void")
            elif k == "subEV":
                emit(f"sub {ta} V", run_op(lambda: a - V(), render), "E-Void")
            elif k == "subVE":
                emit(f"sub V {ta}", run_op(lambda: V() - a, render), "Void-E")
            else:
                emit("sub V V", run_op(lambda: V() - V(), render), "Void-Void")
            c = rng.choice([2, -1, 0, 3, 0.5, -0.25, 1.5, 8.0, -3])
            emit(f"mul {rats([c])} {ta}", run_op(lambda: a * c, render), "E*c")
            if rng.random() < 0.3:
                emit(f"mul {rats([c])} {ta}", run_op(lambda: c * a, render), "c*E")
                emit(f"mul {rats([c])} V", run_op(lambda: V() * c, render), "Void*c")
            d = rng.choice([2, -4, 0.5, 0.125, -1, 8.0])       # powers of two: 1/d and the product are exact
            emit(f"div {rats([d])} {ta}", run_op(lambda: a / d, render), "E/c")
            if a.N_energies >= 1 and rng.random() < 0.5:
                nax = rng.randint(1, min(2, a.data.ndim))
                axes = tuple(sorted(rng.sample(range(a.data.ndim), nax)))
                w = rand_data(rng, [a.data.shape[i] for i in axes], False)
                wre, wim = arr_toks(w)
                arg = axes if (len(axes) > 1 or rng.random() < 0.5) else axes[0]
                emit(f"mularray {ints(axes)} {ints(w.shape)} {wre} {wim} {ta}",
                     run_op(lambda: a.mul_array(w, axes=arg), render), "mul_array")

    # ---- symmetry transformation ----------------------------------------------------------------
    mats = int_matrices()
    for it in range(ctx.n(40, 500)):
        with ctx.attempt("correspondence section: building / operating on real objects", dict(iteration=it)):
            M = rng.choice(mats)
            TR = rng.random() < 0.5
            g = W["PointSymmetry"](M.copy(), TR=TR)
            a = gen.eres(none_transforms=rng.random() < 0.15)
            emit(f"transform {sym_toks(M, TR)} {res_tok(a, gen)}", run_op(lambda: a.transform(g), render), "E.transform")
            if rng.random() < 0.2:
                emit(f"transform {sym_toks(M, TR)} V", run_op(lambda: V().transform(g), render), "Void.transform")
            # transform_tensor and Transform.__call__ directly, arbitrary leading axes
            rank = rng.choice([0, 1, 2, 3])
            lead = [rng.choice([1, 2, 3]) for _ in range(rng.choice([0, 1, 2]))]
            shape = lead + [3] * rank
            if not shape:
                shape = [2]
            nd = len(shape)
            tTR, tInv = rand_transform(rng, W, rank, nd), rand_transform(rng, W, rank, nd)
            A = rand_data(rng, shape, rng.random() < 0.5)
            re, im = arr_toks(A)

            def tt():
                return g.transform_tensor(A, rank, transformTR=tTR, transformInv=tInv)
            emit(f"ttensor {sym_toks(M, TR)} {ints(shape)} {rank} {ttok(tTR)} {ttok(tInv)} {re} {im}",
                 run_op(tt, lambda x: " ".join(arr_toks(x))), "transform_tensor")
            emit(f"tcall {ints(shape)} {ttok(tTR)} {re} {im}",
                 run_op(lambda: tTR(A.copy()), lambda x: " ".join(arr_toks(x))), "Transform.__call__")
            t2 = rng.choice([tTR, tInv, rand_transform(rng, W, rank, nd),
                             W["Transform"](factor=tTR.factor, conj=tTR.conj, transpose_axes=tTR.transpose_axes)])
            emit(f"teq {ttok(tTR)} {ttok(t2)}", str(int(tTR == t2)), "Transform.__eq__")

    # ---- K results ----------------------------------------------------------------------------------
    for it in range(ctx.n(30, 400)):
        with ctx.attempt("correspondence section: building / operating on real objects", dict(iteration=it)):
            a = rand_kres(rng, W)
            rank, nband = a.rank, a.data_list[0].shape[1]
            how = rng.choice(["fit", "fit", "fit", "nband", "rank", "transform"])
            b = rand_kres(rng, W, nband=nband + (1 if how == "nband" else 0), rank=rank + (1 if how == "rank" else 0),
                          tTR=None if how in ("transform", "rank") else a.transformTR,
                          tInv=None if how == "rank" else a.transformInv)
            tail = ints(a.data_list[0].shape[1:])
            ta, tb = k_toks(a), k_toks(b)
            with quiet():
                emit(f"kadd {tail} {ta} {tb}", run_op(lambda: a + b, k_render), f"K+K[{how}]")
            rhs = rng.choice(["Z", "NONE", "V"])
            rv = {"Z": 0, "NONE": None, "V": V()}[rhs]
            # `a + 0` returns a itself and rendering reads `.data`, which merges the block list: use a copy
            a0 = W["KBandResult"]([d.copy() for d in a.data_list], transformTR=a.transformTR,
                                  transformInv=a.transformInv)
            with quiet():
                emit(f"kaddrhs {tail} {rhs} {ta}", run_op(lambda: a0 + rv, k_render), f"K+{rhs}")
            c = rng.choice([2, -1, 0.5, 3, 0])
            emit(f"kmul {tail} {rats([c])} {ta}", run_op(lambda: a * c, k_render), "K*c")
            emit(f"kdiv {tail} {rats([c if c else 2])} {ta}", run_op(lambda: a / (c if c else 2), k_render), "K/c")
            M = rng.choice(mats)
            TR = rng.random() < 0.5
            g = W["PointSymmetry"](M.copy(), TR=TR)
            emit(f"ktransform {tail} {sym_toks(M, TR)} {ta}", run_op(lambda: a.transform(g), k_render), "K.transform")
            # element-wise: same block structure
            b2 = W["KBandResult"]([rand_data(rng, d.shape, np.iscomplexobj(d)) for d in a.data_list],
                                  transformTR=a.transformTR, transformInv=a.transformInv)
            tb2 = k_toks(b2)

            def addip():
                a2 = W["KBandResult"]([d.copy() for d in a.data_list], transformTR=a.transformTR, transformInv=a.transformInv)
                a2.add(b2)
                return a2
            emit(f"kaddip {tail} {ta} {tb2}", run_op(addip, k_render), "K.add(in place)")
            emit(f"ksub {tail} {ta} {tb2}", run_op(lambda: a - b2, k_render), "K-K")   # merges a's and b2's blocks

    # ---- ResultDict keys ------------------------------------------------------------------------------
    for it in range(ctx.n(30, 200)):
        with ctx.attempt("correspondence section: building / operating on real objects", dict(iteration=it)):
            pool = ["ahc", "dos", "tab", "x", "y", "z"]
            ka = rng.sample(pool, rng.randint(0, 5))
            kb = rng.sample(pool, rng.randint(0, 5))
            da = W["ResultDict"]({k: V() for k in ka})
            db = W["ResultDict"]({k: V() for k in kb})
            got = list((da + db).results)
            emit(f"rdkeys {','.join(ka) or '_'} {','.join(kb) or '_'}", ",".join(got) or "_", "ResultDict keys")
            rhs = rng.choice(["Z", "NONE", "V"])
            rv = {"Z": 0, "NONE": None, "V": V()}[rhs]
            emit(f"rdkeysrhs {','.join(ka) or '_'} {rhs}",
                 run_op(lambda: da + rv, lambda r: ",".join(r.results) or "_"), f"ResultDict+{rhs}")

    # ---- persistence -----------------------------------------------------------------------------------
    tmp = os.path.join(ctx.work, "npz")
    os.makedirs(tmp, exist_ok=True)
    for it in range(ctx.n(50, 400)):
        with ctx.attempt("correspondence section: building / operating on real objects", dict(iteration=it)):
            a = gen.eres(none_transforms=rng.random() < 0.1)
            emit(f"asdict {res_tok(a, gen)}", run_op(a.as_dict, dict_render), "as_dict")
            if a.transformTR is None or a.transformInv is None:
                continue
            d = dict(a.as_dict())
            how = rng.choice(["full", "full", "no-comment", "no-TR", "no-Inv", "void", "no-energy", "no-rank", "no-data",
                              "fewer-titles", "no-titles"])
            if how == "no-comment":
                d.pop("comment", None)
            elif how == "no-TR":
                d.pop("transformTR", None)
            elif how == "no-Inv":
                d.pop("transformInv", None)
            elif how == "void":
                d["type"] = "VoidResult"
            elif how == "no-energy" and a.N_energies:
                d.pop(f"Energies_{rng.randrange(a.N_energies)}", None)
            elif how == "no-rank":
                d.pop("rank", None)
            elif how == "no-data":
                d.pop("data", None)
            elif how == "fewer-titles" and a.N_energies:
                d["E_titles"] = list(d.get("E_titles", []))[:-1]
            elif how == "no-titles":
                d.pop("E_titles", None)
            path = os.path.join(tmp, f"c{it}.npz")
            with open(path, "wb") as f:
                np.savez_compressed(f, **d)
            with quiet():
                emit("fromdict " + dict_render(d), run_op(lambda: W["EnergyResult"].from_npz(path), render), f"from_npz[{how}]")
            os.remove(path)
    with quiet():
        emit("asdict V", run_op(V().as_dict, dict_render), "Void.as_dict")
    for it in range(ctx.n(20, 100)):
        with ctx.attempt("correspondence section: building / operating on real objects", dict(iteration=it)):
            nE = rng.randint(0, 4)
            titles = rng.choice([("Efermi", "Omega"), ("Efermi",), ("a", "b", "c", "d", "e"), (), "single"])
            shape = [2] * nE
            r = W["EnergyResult"]([np.arange(2.)] * nE, np.zeros(shape + [3]), rank=1,
                                  E_titles=titles if titles == "single" else list(titles))
            tl = ["single"] if titles == "single" else list(titles)
            emit(f"titles {nE} {','.join(tl) or '_'}", ",".join(r.E_titles) or "_", "E_titles normalisation")

    out = ctx.lean(lines)
    nbad = 0
    for l, o, e, (what, case) in zip(lines, out, expect, cases):
        ctx.case(signature=l, nontrivial=(" E " in " " + l or " K " in l or l.startswith(("k", "tt", "tc"))))
        if o != e:
            nbad += 1
            if nbad <= 20:
                ctx.mismatch(f"{what}: model != code", dict(line=l[:1500], model=o[:1500], code=e[:1500]))
    ctx.sample(dict(protocol_line=lines[0][:400], model=out[0][:300], code=expect[0][:300]))


def dict_render(d):
    """the protocol rendering of an as_dict()-like dictionary, in its own order"""
    toks = []
    for k, v in d.items():
        if k == "E_titles":
            toks.append(f"{k}=s|" + (",".join(str(x) for x in v) or "_"))
        elif k == "data":
            re, im = arr_toks(v)
            toks.append(f"{k}=a|{ints(np.shape(v))}|{re}|{im}")
        elif k == "rank":
            toks.append(f"{k}=n|{int(v)}")
        elif k in ("transformTR", "transformInv"):
            f4 = []
            for key in ("factor", "conj", "transpose_axes", "swap_axes"):
                x = v.get(key, "MISSING") if isinstance(v, dict) else "NOT-A-DICT"
                f4.append(x if isinstance(x, str) else "N" if x is None else ints(x) if key.endswith("axes") else str(int(x)))
            toks.append(f"{k}=t|" + ":".join(f4))
        elif k in ("comment", "type"):
            toks.append(f"{k}=c|{v}")
        elif k.startswith("Energies_"):
            toks.append(f"{k}=r|{rats(v)}")
        else:
            toks.append(f"{k}=?|")
    return " ".join(toks)


# --------------------------------------------------------------------------------------------
# property-level oracle on the real objects (numpy reference algebra, real files)

def ref_apply_transform(T, x):
    if T.transpose_axes is not None:
        m = len(T.transpose_axes)
        d0 = x.ndim - m
        x = np.transpose(x, tuple(range(d0)) + tuple(d0 + a for a in T.transpose_axes))
    elif T.swap_axes is not None:
        x = np.swapaxes(x, *T.swap_axes)
    if T.conj:
        x = np.conj(x)
    return x * T.factor


def ref_transform(data, rank, M, TR, tTR, tInv):
    """reference: rotate every tensor axis with the proper part of M, then TR / inversion rules"""
    inv = np.linalg.det(M) < 0
    R = -M if inv else M
    res = np.array(data)
    nd = res.ndim
    for ax in range(nd - rank, nd):
        res = np.moveaxis(np.tensordot(R, res, axes=(1, ax)), 0, ax)
    if TR:
        res = ref_apply_transform(tTR, res)
    if inv:
        res = ref_apply_transform(tInv, res)
    return res


def rand_symmetry(rng, W):
    from wannierberri.symmetry.point_symmetry import Rotation, Mirror
    k = rng.choice(["rot", "rot", "mirror", "prod", "inv", "tr", "int"])
    ax = [rng.choice([0, 1, -1, 2]) for _ in range(3)]
    if not any(ax):
        ax = [0, 0, 1]
    with quiet():
        if k == "rot":
            g = Rotation(rng.choice([2, 3, 4, 6]), ax)
        elif k == "mirror":
            g = Mirror(ax)
        elif k == "prod":
            g = Rotation(rng.choice([3, 4, 6]), ax) * Mirror([1, 0, 0])
        elif k == "inv":
            g = W["PointSymmetry"](-np.eye(3))
        elif k == "tr":
            g = W["PointSymmetry"](np.eye(3), True)
        else:
            g = W["PointSymmetry"](rng.choice(int_matrices()[:48]).copy())
        if rng.random() < 0.4:
            g = g * W["PointSymmetry"](np.eye(3), True)
    M = g.R * (-1 if g.Inv else 1)
    return g, M, bool(g.TR)


def same(a, b, tol=0.0):
    a, b = np.asarray(a), np.asarray(b)
    if a.shape != b.shape:
        return False
    if a.size == 0:
        return True
    if tol == 0.0:
        return bool(np.array_equal(a, b))
    return bool(np.abs(a - b).max() <= tol)


def meta_same(r, a, ctx, what, case):
    """energies, rank, transforms, smoothers of the result are those of the left operand"""
    ok = (len(r.Energies) == len(a.Energies) and all(np.array_equal(x, y) for x, y in zip(r.Energies, a.Energies))
          and int(r.rank) == int(a.rank) and tattrs(r.transformTR) == tattrs(a.transformTR)
          and tattrs(r.transformInv) == tattrs(a.transformInv)
          and all(x == y for x, y in zip(r.smoothers, a.smoothers)) and list(r.E_titles) == list(a.E_titles))
    if not ok:
        ctx.fail(f"{what}: energies / rank / transformations / smoothers / titles are not those of the operand", case)


def oracle(ctx, scale):
    W = imports()
    rng = ctx.rng
    gen = Gen(rng, W)
    V = W["VoidResult"]
    eps = 2.0 ** -52

    # ---- energy results: vector laws, void, transform ------------------------------------------------
    for it in range(ctx.n(100, 1500) * scale):
        a = gen.eres()
        b, _ = gen.like(a, perturb=False)
        c3, _ = gen.like(a, perturb=False)
        A, B, C = a.data.copy(), b.data.copy(), c3.data.copy()
        case = dict(shape=list(A.shape), nE=a.N_energies, rank=int(a.rank), complex=bool(np.iscomplexobj(A)),
                    tTR=ttok(a.transformTR), tInv=ttok(a.transformInv), A=A, B=B)
        ctx.case(signature=("E", A.shape, A.tobytes(), B.tobytes()), nontrivial=A.size > 1)
        ctx.count(f"oracle.E.nE={a.N_energies}")
        ctx.count(f"oracle.E.rank={int(a.rank)}")
        ctx.count("oracle.E.complex" if np.iscomplexobj(A) or np.iscomplexobj(B) else "oracle.E.real")
        with ctx.attempt("EnergyResult arithmetic", case):
            s = a + b
            if not same(s.data, A + B):
                ctx.fail("(a+b).data is not a.data + b.data", case)
            meta_same(s, a, ctx, "a+b", case)
            if not same((a - b).data, A - B):
                ctx.fail("(a-b).data is not a.data - b.data", case)
            for c in (rng.choice([2, -3, 7, 0]), rng.choice([0.1, -2.7, 1e-3, 3.0])):
                m = a * c
                if not same(m.data, A * c) or not same((c * a).data, A * c):
                    ctx.fail(f"(a*{c}).data is not a.data*{c}", dict(case, c=c))
                meta_same(m, a, ctx, "a*c", case)
                if m.comment != a.comment:
                    ctx.fail("a*c lost the comment", case)
                if c != 0:
                    q = a / c
                    if not same(q.data, A / c, tol=4 * eps * np.abs(A / c).max()):
                        ctx.fail(f"(a/{c}).data is not a.data/{c}", dict(case, c=c))
                    meta_same(q, a, ctx, "a/c", case)
                # distributivity (a+b)*c = a*c + b*c
                if not same(((a + b) * c).data, (a * c + b * c).data, tol=4 * eps * (np.abs(A).max() + np.abs(B).max()) * abs(c)):
                    ctx.fail("(a+b)*c differs from a*c + b*c", dict(case, c=c))
            if not same(((a + b) + c3).data, (a + (b + c3)).data) or not same((a + b).data, (b + a).data):
                ctx.fail("+ is not associative / commutative on the data", dict(case, C=C))
            if not same(sum([a, b, c3]).data, A + B + C):
                ctx.fail("sum([a,b,c]) is not the element-wise sum", dict(case, C=C))
            if not np.array_equal(a.data, A) or not np.array_equal(b.data, B):
                ctx.fail("an operand was modified by the arithmetic", case)
            # void
            for name, r in (("a+Void", a + V()), ("Void+a", V() + a), ("a-Void", a - V()), ("a+0", a + 0),
                            ("0+a", 0 + a), ("a+None", a + None)):
                if isinstance(r, V) or not same(r.data, A):
                    ctx.fail(f"{name} is not a", case)
            if not same((V() - a).data, -A):
                ctx.fail("Void - a is not -a", case)
            for name, r in (("Void*c", V() * 3.5), ("Void/c", V() / 2), ("c*Void", 2 * V()), ("Void+Void", V() + V())):
                if not isinstance(r, V):
                    ctx.fail(f"{name} is not the void result", case)
            # mul_array distributes
            if a.N_energies:
                axes = tuple(sorted(rng.sample(range(A.ndim), rng.randint(1, min(2, A.ndim)))))
                w = rand_data(rng, [A.shape[i] for i in axes], False)
                wb_ = w.reshape([A.shape[i] if i in axes else 1 for i in range(A.ndim)])
                if not same(a.mul_array(w, axes=axes).data, A * wb_):
                    ctx.fail("mul_array is not the broadcast product", dict(case, axes=axes, w=w))
                if not same((a + b).mul_array(w, axes=axes).data, (a.mul_array(w, axes=axes) + b.mul_array(w, axes=axes)).data):
                    ctx.fail("mul_array does not distribute over +", dict(case, axes=axes, w=w))
        # symmetry transformation distributes over + and commutes with real scaling
        g, M, TR = rand_symmetry(rng, W)
        case = dict(case, M=M, TR=TR)
        with ctx.attempt("EnergyResult.transform", case):
            scale_ = (np.abs(A).max() + np.abs(B).max() + 1) * (np.abs(M).sum(axis=1).max() ** int(a.rank))
            tol = 64 * (3 ** int(a.rank) + 2) * eps * scale_
            ta, tb_, ts = a.transform(g), b.transform(g), (a + b).transform(g)
            ref = ref_transform(A, int(a.rank), M, TR, a.transformTR, a.transformInv)
            if not same(ta.data, ref, tol):
                ctx.fail("transform(g).data differs from the rotated / TR / inversion-transformed tensor", case)
            meta_same(ta, a, ctx, "transform", case)
            if not same(ts.data, (ta + tb_).data, tol):
                ctx.fail("transform does not distribute over +: transform(a+b) != transform(a)+transform(b)", case)
            c = rng.choice([2.5, -3.0, 0.3])
            if not same((a * c).transform(g).data, (ta * c).data, tol * abs(c)):
                ctx.fail("transform does not commute with real scaling", dict(case, c=c))
            if not isinstance(V().transform(g), V):
                ctx.fail("Void.transform is not void", case)
            if not np.array_equal(a.data, A):
                ctx.fail("transform modified its operand", case)

    # ---- k-resolved results -----------------------------------------------------------------------------
    for it in range(ctx.n(50, 800) * scale):
        a = rand_kres(rng, W)
        b = rand_kres(rng, W, nband=a.data_list[0].shape[1], rank=a.rank, tTR=a.transformTR, tInv=a.transformInv,
                      cplx=np.iscomplexobj(a.data_list[0]))
        LA, LB = [d.copy() for d in a.data_list], [d.copy() for d in b.data_list]
        A, B = np.vstack(LA), np.vstack(LB)
        case = dict(shapeA=[list(d.shape) for d in LA], shapeB=[list(d.shape) for d in LB], rank=int(a.rank),
                    tTR=ttok(a.transformTR), tInv=ttok(a.transformInv), A=A, B=B)
        ctx.case(signature=("K", A.shape, B.shape, A.tobytes(), B.tobytes()), nontrivial=True)
        ctx.count(f"oracle.K.rank={int(a.rank)}")
        ctx.count(f"oracle.K.blocks={len(LA)}+{len(LB)}")
        with ctx.attempt("K__Result arithmetic", case):
            with quiet():
                s = a + b
            if s.nk != A.shape[0] + B.shape[0] or not same(s.data, np.vstack([A, B])):
                ctx.fail("K: (a+b) is not the k-points of a followed by the k-points of b", case)
            if tattrs(s.transformTR) != tattrs(a.transformTR) or tattrs(s.transformInv) != tattrs(a.transformInv) \
                    or int(s.rank) != int(a.rank):
                ctx.fail("K: a+b lost rank / transformations", case)
            c = rng.choice([2, -0.5, 3.25, 0])
            if not same((a * c).data, A * c) or not same((c * a).data, A * c):
                ctx.fail("K: (a*c).data is not a.data*c", dict(case, c=c))
            with quiet():
                if not same(((a + b) * c).data, (a * c + b * c).data):
                    ctx.fail("K: (a+b)*c differs from a*c + b*c", dict(case, c=c))
            if not same((a / 7).data, A):
                ctx.fail("K: a/number is documented to be a copy (k-point weights play no role) but the data changed", case)
            b2 = W["KBandResult"](rand_data(rng, A.shape, np.iscomplexobj(A)), transformTR=a.transformTR,
                                  transformInv=a.transformInv)
            B2 = b2.data.copy()
            if not same((a - b2).data, A - B2):
                ctx.fail("K: (a-b).data is not a.data - b.data", case)
            a3 = W["KBandResult"](A.copy(), transformTR=a.transformTR, transformInv=a.transformInv)
            a3.add(b2)
            if not same(a3.data, A + B2):
                ctx.fail("K: in-place add is not element-wise", case)
            if isinstance(V() + a, V) or not same((V() + a).data, A):
                ctx.fail("K: Void + a is not a", case)
            g, M, TR = rand_symmetry(rng, W)
            tol = 64 * (3 ** int(a.rank) + 2) * eps * (np.abs(A).max() + np.abs(B).max() + 1) * (np.abs(M).sum(axis=1).max() ** int(a.rank))
            ta = a.transform(g)
            if not same(ta.data, ref_transform(A, int(a.rank), M, TR, a.transformTR, a.transformInv), tol):
                ctx.fail("K: transform(g).data differs from the reference", dict(case, M=M, TR=TR))
            with quiet():
                if not same((a + b).transform(g).data, (ta + b.transform(g)).data, tol):
                    ctx.fail("K: transform does not distribute over +", dict(case, M=M, TR=TR))
    neutral_right_oracle(ctx, W, scale)

    # ---- dictionaries ----------------------------------------------------------------------------------
    for it in range(ctx.n(25, 400) * scale):
        keys = ["ahc", "dos", "cond", "tab", "void", "mixed"]
        ka = rng.sample(keys, rng.randint(1, 6))
        kb = rng.sample(keys, rng.randint(1, 6))
        proto = {}
        for k in keys:
            proto[k] = rand_kres(rng, W, nblocks=1) if k == "tab" else gen.eres()

        def entry(k, side):
            if k == "void" or (k == "mixed" and side == "a"):
                return V()
            p = proto[k]
            if k == "tab":
                return rand_kres(rng, W, nband=p.data_list[0].shape[1], rank=p.rank, tTR=p.transformTR,
                                 tInv=p.transformInv, cplx=np.iscomplexobj(p.data_list[0]))
            return gen.like(p, perturb=False)[0]
        da = {k: entry(k, "a") for k in ka}
        db = {k: entry(k, "b") for k in kb}
        case = dict(keysA=ka, keysB=kb)
        ctx.case(signature=("RD", tuple(ka), tuple(kb), it), nontrivial=True)
        ctx.count("oracle.ResultDict")
        with ctx.attempt("ResultDict arithmetic", case):
            RA, RB = W["ResultDict"](dict(da)), W["ResultDict"](dict(db))
            with quiet():
                s = RA + RB
                ssum = sum([RA, RB])
            if list(s.results) != [k for k in ka if k in kb] or list(ssum.results) != list(s.results):
                ctx.fail("ResultDict +: keys are not the common keys (in the order of the left operand)", case)
            for k in s.results:
                with quiet():
                    want = da[k] + db[k]
                got = s.results[k]
                if isinstance(want, V) != isinstance(got, V) or (not isinstance(want, V) and not same(got.data, want.data)):
                    ctx.fail(f"ResultDict +: entry {k} is not the sum of the entries", case)
            c = rng.choice([2, -1.5, 0.25])
            m, q = RA * c, RA / c
            g, M, TR = rand_symmetry(rng, W)
            t = RA.transform(g)
            for k in ka:
                e = da[k]
                if isinstance(e, V):
                    if not all(isinstance(x.results[k], V) for x in (m, q, t)):
                        ctx.fail(f"ResultDict: void entry {k} did not stay void", case)
                    continue
                D = np.array(e.data)
                if not same(m.results[k].data, D * c):
                    ctx.fail(f"ResultDict *: entry {k} is not scaled", dict(case, c=c))
                wantq = D if k == "tab" else D / c
                if not same(q.results[k].data, wantq, tol=4 * eps * np.abs(D).max()):
                    ctx.fail(f"ResultDict /: entry {k} is not divided (copied for k-resolved entries)", dict(case, c=c))
                if not same(t.results[k].data, e.transform(g).data):
                    ctx.fail(f"ResultDict.transform: entry {k} is not the transformed entry", case)
            # subtraction on energy / void entries
            ea = {k: v for k, v in da.items() if k != "tab"}
            eb = {k: v for k, v in db.items() if k != "tab"}
            d = W["ResultDict"](ea) - W["ResultDict"](eb)
            for k in d.results:
                want = ea[k] - eb[k]
                got = d.results[k]
                if isinstance(want, V) != isinstance(got, V) or (not isinstance(want, V) and not same(got.data, want.data)):
                    ctx.fail(f"ResultDict -: entry {k} is not the difference of the entries", case)
            if list((RA + 0).results) != ka or list((RA + None).results) != ka:
                ctx.fail("ResultDict + 0 / None is not the dictionary itself", case)

    save_load_oracle(ctx, W, gen, scale)
    notes_probe(ctx, W)


def neutral_right_oracle(ctx, W, scale):
    """0, None and the void result are neutral on the RIGHT of k-resolved results and dictionaries as well
    (sum([...]) starts from 0), and numpy scalars are accepted as factors"""
    V = W["VoidResult"]
    rng = ctx.rng
    gen = Gen(rng, W)
    for it in range(ctx.n(30, 300) * scale):
        k = rand_kres(rng, W)
        LA = [d.copy() for d in k.data_list]
        A = np.vstack(LA)
        k2 = rand_kres(rng, W, nband=A.shape[1], rank=k.rank, tTR=k.transformTR, tInv=k.transformInv,
                       cplx=np.iscomplexobj(A))
        B = np.vstack([d.copy() for d in k2.data_list])
        case = dict(shapeA=[list(d.shape) for d in LA], rank=int(k.rank), A=A)
        ctx.case(signature=("neutral", A.shape, A.tobytes()), nontrivial=True)
        ctx.count("oracle.neutral-right")
        with ctx.attempt("neutral element on the right", case):
            with quiet():
                for name, r in (("k + Void", k + V()), ("k + 0", k + 0), ("k + None", k + None), ("0 + k", 0 + k),
                                ("Void + k", V() + k)):
                    if isinstance(r, V) or not same(r.data, A) or int(r.rank) != int(k.rank):
                        ctx.fail(f"{name} is not k", case)
                s = sum([k, k2])
                if not same(s.data, np.vstack([A, B])):
                    ctx.fail("sum([k1, k2]) is not the k-points of k1 followed by those of k2", dict(case, B=B))
                e = gen.eres()
                d = W["ResultDict"]({"tab": k, "e": e, "v": V()})
                for name, r in (("d + Void", d + V()), ("d + 0", d + 0), ("d + None", d + None), ("Void + d", V() + d),
                                ("sum([d])", sum([d]))):
                    if list(r.results) != ["tab", "e", "v"] or not same(r.results["tab"].data, A) \
                            or not same(r.results["e"].data, e.data) or not isinstance(r.results["v"], V):
                        ctx.fail(f"{name} is not the dictionary d", case)
            # numpy scalars as factors
            a = gen.eres()
            D = a.data.copy()
            for c in (np.int64(rng.randint(-5, 5)), np.int32(3), np.float64(-1.5), np.float32(0.25), np.uint8(2)):
                for name, f in ((f"a * {type(c).__name__}", lambda: a * c), (f"{type(c).__name__} * a (reflected)", lambda: a.__rmul__(c))):
                    r = f()
                    if not same(r.data, D * c):
                        ctx.fail(f"{name}: data are not a.data * {c}", dict(shape=list(D.shape), c=float(c)))
                if c != 0 and not same((a / c).data, D / c, tol=8 * 2.0 ** -52 * np.abs(D / c).max()):
                    ctx.fail(f"a / {type(c).__name__}({c}) is not a.data / c", dict(shape=list(D.shape), c=float(c)))
            if not same((k * np.int64(3)).data, A * 3):
                ctx.fail("k * np.int64(3) is not k.data * 3", case)


def notes_probe(ctx, W):
    """behaviours outside the property statement, recorded as notes only"""
    if W["Transform"](swap_axes=(1, 2)) == W["Transform"]():
        ctx.note("observation: Transform.__eq__ ignores swap_axes, so results whose transformations differ only there "
                 "pass the compatibility check of + (theorem transform_eq_ignores_swap); no calculator uses swap_axes")
    try:
        g1 = W["GaussianSmoother"](np.arange(3.), 1.0)
        g2 = W["GaussianSmoother"](np.arange(5.), 1.0)
        g1 == g2
    except ValueError:
        ctx.note("observation: AbstractSmoother.__eq__ raises ValueError for energy grids of different length")
    except Exception:  # noqa
        pass
    try:
        a = W["EnergyResult"](np.arange(2.), np.ones(2), transformTR=W["Transform"](), transformInv=W["Transform"](),
                              comment="kept?")
        if a.mul_array(np.ones(2), axes=0).comment != "kept?":
            ctx.note("observation: EnergyResult.mul_array does not keep the comment")
    except Exception:  # noqa
        pass


COMMENTS_IO = ["undocumented", "", "two words", "line one\nline two", "unicode: Ω é ∂/∂k", " lead/trail ",
               "tab\there", "x" * 300, "#### hash", "quotes ' \" \\ back"]


def save_load_oracle(ctx, W, gen, scale):
    rng = ctx.rng
    V = W["VoidResult"]
    tmp = os.path.join(ctx.work, "io")
    os.makedirs(tmp, exist_ok=True)
    ER = W["EnergyResult"]
    for it in range(ctx.n(50, 600) * scale):
        a = gen.eres()
        a.comment = rng.choice(COMMENTS_IO)
        if rng.random() < 0.3:   # non-dyadic data and energies
            a.data = a.data * (1 / 3)
            a.Energies = [E * 0.1 + 1 / 7 for E in a.Energies]
        A = a.data.copy()
        case = dict(shape=list(A.shape), nE=a.N_energies, rank=int(a.rank), dtype=str(A.dtype), tTR=ttok(a.transformTR),
                    tInv=ttok(a.transformInv), comment=a.comment, titles=list(a.E_titles), A=A)
        ctx.case(signature=("io", A.shape, A.tobytes(), a.comment, ttok(a.transformTR), ttok(a.transformInv)),
                 nontrivial=A.size > 1)
        ctx.count(f"oracle.io.nE={a.N_energies}")
        ctx.count(f"oracle.io.rank={int(a.rank)}")
        with ctx.attempt("save / from_npz", case):
            name = os.path.join(tmp, f"r{it}")
            if rng.random() < 0.5:
                a.save(name)
                path = name + ".npz"
            else:
                a.save_mode = {"bin"}
                with quiet():
                    a.savedata("ahc", os.path.join(tmp, f"p{it}"), "suf", 3)
                path = os.path.join(tmp, f"p{it}-ahc-suf_iter-0003.npz")
            with quiet():
                b = ER.from_npz(path)
            os.remove(path)
            if isinstance(b, V):
                ctx.fail("loading a saved result gave the void result", case)
                continue
            if b.data.shape != A.shape or b.data.dtype != A.dtype or not np.array_equal(b.data, A):
                ctx.fail("save/load changed the data", case)
            if len(b.Energies) != a.N_energies or any(
                    not np.array_equal(x, y) or np.asarray(x).dtype != np.asarray(y).dtype
                    for x, y in zip(b.Energies, a.Energies)):
                ctx.fail("save/load changed the energies", case)
            if int(b.rank) != int(a.rank) or b.N_energies != a.N_energies:
                ctx.fail("save/load changed rank / number of energies", case)
            if tattrs(b.transformTR) != tattrs(a.transformTR) or tattrs(b.transformInv) != tattrs(a.transformInv):
                ctx.fail(f"save/load changed a transformation: TR {tattrs(a.transformTR)} -> {tattrs(b.transformTR)}, "
                         f"Inv {tattrs(a.transformInv)} -> {tattrs(b.transformInv)}", case)
            if b.comment != a.comment:
                ctx.fail(f"save/load changed the comment: {a.comment!r} -> {b.comment!r}", case)
            if [str(t) for t in b.E_titles] != [str(t) for t in a.E_titles]:
                ctx.fail("save/load changed the titles", case)
            # the loaded object is a working result: transforms act as before
            g, M, TR = rand_symmetry(rng, W)
            if not same(b.transform(g).data, a.transform(g).data):
                ctx.fail("a loaded result transforms differently from the saved one", dict(case, M=M, TR=TR))
    with ctx.attempt("VoidResult save/load", dict()):
        name = os.path.join(tmp, "void")
        V().save(name)
        with quiet():
            if not isinstance(ER.from_npz(name + ".npz"), V):
                ctx.fail("a saved void result does not load as void", dict())
            if not isinstance(ER.from_npz(os.path.join(tmp, "does-not-exist.npz")), V):
                ctx.fail("a missing file does not load as void", dict())
        os.remove(name + ".npz")
        ctx.case(signature=("io-void",), nontrivial=False)


def replay(ctx, case):
    oracle(ctx, 1)
