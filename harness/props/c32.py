"""C32 - tight-binding imports (PythTB spinless/spinful, TBmodels) reproduce the source model; Haldane_ptb = Haldane_tbm."""
import warnings
from fractions import Fraction as Fr

import numpy as np

from ..common import F, rats, intss, quiet, parse_intss, parse_rats

PID = "C32"
CLAIM = dict(
    design="3/C32",
    technique="Lean 4 proof over a model of the import loop (R list = unique rows of {0, R, -R}; "
              "Ham_R[iR,i,j] += t, Ham_R[inR,j,i] += conj t; 2x2 spin blocks interleaved; whole matrices for TBmodels; "
              "on-site assignment) for an arbitrary field, conjugation and Bloch character + exact differential "
              "correspondence in Gaussian rationals + property oracle on the real code",
    text="Theorems, for every hopping list (any dimension, repeated hoppings, both directions, R=0 terms), any field "
         "K with an additive involution conj and ANY function chi of the lattice vector: the imported Ham_R is "
         "Hermitian, H(-R)[j][i] = conj H(R)[i][j]; its Bloch sum equals the source model's hopping sum + h.c. + "
         "on-site term at every (i,j) - for spinless PythTB, for spinful PythTB (2x2 blocks at rows 2i,2i+1 / columns "
         "2j,2j+1) and for TBmodels (M at R, M^dagger at -R); the R list contains 0 and +-R of every hopping.  Equal "
         "Bloch sums for every chi = equal H(k) at every k = equal bands.  The model is run on the hopping lists of "
         "random real PythTB/TBmodels models and compared with the real importer exactly; the oracle compares "
         "evaluate_k energies with model.solve_ham / model.eigenval and with an independent Bloch sum at random k, "
         "and Haldane_ptb with Haldane_tbm for random parameters.",
    note="Trusted: Lean kernel + Mathlib; the harness; numpy.linalg.eigvalsh; PythTB and TBmodels themselves (their "
         "stored hopping tables are the input of the model; their band solvers are one of two references).",
)
TRUSTED = [
    "modelled: the R-vector list, the hopping accumulation loops (pythtb nspin=1/2, tbmodels), the on-site assignment",
    "not modelled (oracle only): wannier centres = positions % 1 and the Bloch phases with centres (a diagonal unitary: "
    "does not change eigenvalues), Rvectors/System_R glue, do_at_end_of_init, evaluate_k",
    "PythTB / TBmodels internal storage (model.hoppings, model._site_energies, model.hop) is taken as the definition of "
    "the source model; the oracle additionally rebuilds H(k) from the hoppings the harness itself added",
]
RULE = ("random PythTB models (dim 1-3, 1-4 orbitals, spinless and spinful with scalar / 4-component / 2x2 amplitudes, "
        "orbital positions inside and outside the home cell, 0-9 hoppings incl. i=j and R with negative components) "
        "and random TBmodels models (dim 1-3, size 1-4, on-site terms, hoppings added in both directions and "
        "repeatedly); the bundled builders with random parameters; non-trivial = at least one hopping with R != 0; "
        "distinct = distinct (kind, dim, norb, hopping table)")


def imports():
    with quiet(), warnings.catch_warnings():
        warnings.simplefilter("ignore")
        import pythtb
        import tbmodels
        from wannierberri.system.system_R import System_R
        from wannierberri import models
    return pythtb, tbmodels, System_R, models


def dy(rng, cplx=True, nz=True):
    while True:
        a = Fr(rng.randint(-12, 12), 8)
        b = Fr(rng.randint(-12, 12), 8) if cplx else Fr(0)
        if not nz or a != 0 or b != 0:
            return complex(float(a), float(b))


def gen_ptb(rng, pythtb, exact=True, spin=None, dim=None):
    """random PythTB model; returns (model, spec) where spec lists what the harness itself put in"""
    dim = dim or rng.choice([1, 2, 2, 3])
    norb = rng.randint(1, 4)
    spin = rng.random() < 0.45 if spin is None else spin
    L = np.eye(dim) + np.array([[rng.choice([0, 0, 0.25, -0.125, 0.5]) for _ in range(dim)] for _ in range(dim)])
    if abs(np.linalg.det(L)) < 0.3:
        L = np.eye(dim) * 1.25
    orb = [[rng.choice([0, 0.25, 0.5, 1 / 3, -0.3, 1.3, 0.95, 2.5]) for _ in range(dim)] for _ in range(norb)]
    lat = pythtb.Lattice(lat_vecs=L.tolist(), orb_vecs=orb, periodic_dirs=list(range(dim)))
    m = pythtb.TBModel(lat, spinful=spin)
    val = (lambda c=True: dy(rng, c)) if exact else (lambda c=True: complex(rng.uniform(-1, 1), rng.uniform(-1, 1) if c else 0))
    if spin:
        ons = []
        for i in range(norb):
            if rng.random() < 0.5:
                ons.append(val(False).real)
            else:
                ons.append([val(False).real for _ in range(4)])      # a + b sx + c sy + d sz
        m.set_onsite(ons)
    else:
        ons = [val(False).real for _ in range(norb)]
        m.set_onsite(ons)
    hops, seen = [], set()
    for _ in range(rng.choice([0, 0, 1, 2, 3, 4, 5, 7, 9])):
        i, j = rng.randrange(norb), rng.randrange(norb)
        R = tuple(rng.randint(-2, 2) for _ in range(dim))
        if (i == j and all(x == 0 for x in R)) or (i, j, R) in seen:
            continue
        mR = tuple(-x for x in R)
        # a bond may also be given through its conjugate partner (j,i,-R): PythTB accepts that with
        # allow_conjugate_pair=True and SUMS both contributions into the same matrix element
        conj_pair = (j, i, mR) in seen
        if conj_pair and (i, j, R) == (j, i, mR):
            continue
        seen.add((i, j, R))
        if spin:
            kind = rng.choice(["scalar", "pauli", "matrix"])
            if kind == "scalar":
                amp = val()
            elif kind == "pauli":
                amp = [val() for _ in range(4)]
            else:
                amp = np.array([[val(), val()], [val(), val()]])
        else:
            amp = val()
        if conj_pair:
            m.set_hop(amp, i, j, list(R), allow_conjugate_pair=True)
        else:
            m.set_hop(amp, i, j, list(R))
        hops.append((amp, i, j, R))
    # make conjugate pairs frequent enough to matter: with probability 1/3 add the partner of an existing hopping
    if hops and rng.random() < 0.34:
        amp0, i0, j0, R0 = hops[rng.randrange(len(hops))]
        mR0 = tuple(-x for x in R0)
        if (j0, i0, mR0) not in seen and (i0, j0, R0) != (j0, i0, mR0):
            seen.add((j0, i0, mR0))
            if spin:
                amp = rng.choice([val(), [val() for _ in range(4)], np.array([[val(), val()], [val(), val()]])])
            else:
                amp = val()
            m.set_hop(amp, j0, i0, list(mR0), allow_conjugate_pair=True)
            hops.append((amp, j0, i0, mR0))
    return m, dict(dim=dim, norb=norb, spin=spin, lat=L, orb=orb, onsite=ons, hops=hops)


def gen_tbm(rng, tbmodels, exact=True):
    dim = rng.choice([1, 2, 3])
    nw = rng.randint(1, 4)
    L = np.eye(dim) + np.array([[rng.choice([0, 0, 0.25, -0.125]) for _ in range(dim)] for _ in range(dim)])
    pos = [[rng.choice([0, 0.25, 0.5, 1 / 3, 0.7]) for _ in range(dim)] for _ in range(nw)]
    val = (lambda c=True: dy(rng, c)) if exact else (lambda c=True: complex(rng.uniform(-1, 1), rng.uniform(-1, 1) if c else 0))
    ons = [val(False).real for _ in range(nw)]
    m = tbmodels.Model(on_site=ons, uc=L.tolist(), dim=dim, occ=0, pos=pos)
    hops = []
    for _ in range(rng.randint(0, 9)):
        i, j = rng.randrange(nw), rng.randrange(nw)
        R = tuple(rng.randint(-2, 2) for _ in range(dim))
        amp = val()
        if i == j and all(x == 0 for x in R):
            amp = complex(amp.real, 0)            # tbmodels: an on-site "hopping" must be real
        m.add_hop(amp, i, j, list(R))              # repeated / reversed hoppings accumulate in TBmodels
        hops.append((amp, i, j, R))
    return m, dict(dim=dim, nw=nw, lat=L, pos=pos, onsite=ons, hops=hops)


def pad3(R):
    return tuple(int(x) for x in R) + (0,) * (3 - len(R))


def cfl(X):
    out = []
    for z in np.asarray(X, dtype=complex).reshape(-1):
        out += [F(z.real), F(z.imag)]
    return out


# ------------------------------------------------------------------------------------------------

def corr(ctx):
    pythtb, tbmodels, System_R, models = imports()
    rng = ctx.rng
    lines, wants, cases = [], [], []
    for it in range(ctx.n(40, 250)):
        kind = rng.choice(["ptb", "ptbspin", "tbm"])
        ctx.count(f"corr.{kind}")
        if kind in ("ptb", "ptbspin"):
            m, spec = gen_ptb(rng, pythtb, exact=True, spin=(kind == "ptbspin"))
            case = dict(kind=kind, dim=spec["dim"], norb=spec["norb"], hops=[(str(h[0]), h[1], h[2], h[3]) for h in spec["hops"]])
            if not spec["hops"]:
                ctx.count("corr.ptb.no_hoppings")              # atomic limit (repaired defect F17)
            with ctx.attempt("get_system_tb_py (pythtb)", case):
                with quiet():
                    s = System_R.from_pythtb(m)
                norb = m.norb
                if kind == "ptb":
                    hl = []
                    for h in m.hoppings:
                        a = complex(h["amplitude"])
                        hl += [F(a.real), F(a.imag), h["from_orbital"], h["to_orbital"]] + list(pad3(h.get("lattice_vector", [0] * spec["dim"])))
                    line = f"ptb {norb} {rats(hl)} {rats(F(float(np.real(e))) for e in m._site_energies)}"
                else:
                    hl = []
                    for h in m.hoppings:
                        hl += cfl(h["amplitude"]) + [h["from_orbital"], h["to_orbital"]] + list(pad3(h.get("lattice_vector", [0] * spec["dim"])))
                    line = f"ptbspin {norb} {rats(hl)} {rats(cfl(m._site_energies))}"
        else:
            m, spec = gen_tbm(rng, tbmodels, exact=True)
            case = dict(kind=kind, dim=spec["dim"], nw=spec["nw"], hops=[(str(h[0]), h[1], h[2], h[3]) for h in spec["hops"]])
            with ctx.attempt("get_system_tb_py (tbmodels)", case):
                with quiet():
                    s = System_R.from_tbmodels(m)
                items = list(m.hop.items())
                line = (f"tbm {m.size} {intss(pad3(R) for R, _ in items)} "
                        f"{rats(x for _, M in items for x in cfl(np.array(M)))}")
        lines.append(line)
        wants.append(([tuple(int(x) for x in R) for R in s.rvec.iRvec], np.array(s.get_R_mat("Ham"))))
        cases.append(case)
    out = ctx.lean(lines)
    for l, o, (Rs, H), case in zip(lines, out, wants, cases):
        ctx.case(signature=l[:1500], nontrivial=len(Rs) > 1)
        if o == "bad-op":
            ctx.mismatch("model rejected the line", dict(case, line=l[:300]))
            continue
        a, b = o.split(" ")
        mR = [tuple(r) for r in parse_intss(a)]
        if mR != Rs:
            ctx.mismatch(f"R-vector list: model {mR} code {Rs}", case)
            continue
        mv = parse_rats(b)
        X = H.reshape(-1)
        bad = [j for j, z in enumerate(X) if F(z.real) != mv[2 * j] or F(z.imag) != mv[2 * j + 1]]
        if len(mv) != 2 * len(X) or bad:
            ctx.mismatch(f"Ham_R differs from the model at flat positions {bad[:5]} (sizes {len(mv)} vs {2 * len(X)})", case)
    ctx.sample(dict(protocol_line=lines[0][:300], model=out[0][:300]))


# ------------------------------------------------------------------------------------------------

PAULI = [np.eye(2), np.array([[0, 1], [1, 0]]), np.array([[0, -1j], [1j, 0]]), np.array([[1, 0], [0, -1]])]


def block(amp):
    """what a spinful amplitude means: scalar -> a*1, 4 numbers -> a + b sx + c sy + d sz, 2x2 -> itself"""
    if np.ndim(amp) == 0:
        return complex(amp) * np.eye(2)
    amp = np.asarray(amp)
    if amp.shape == (4,):
        return sum(amp[n] * PAULI[n] for n in range(4))
    return amp.astype(complex)


def ref_bands_ptb(spec, k):
    """independent Bloch Hamiltonian from the hoppings the harness added (PythTB convention: phases with positions)"""
    dim, norb, spin = spec["dim"], spec["norb"], spec["spin"]
    ns = 2 if spin else 1
    H = np.zeros((norb * ns, norb * ns), dtype=complex)
    orb = np.array(spec["orb"], dtype=float)
    for amp, i, j, R in spec["hops"]:
        ph = np.exp(2j * np.pi * np.dot(k[:dim], np.array(R) + orb[j] - orb[i]))
        B = block(amp) if spin else np.array([[complex(amp)]])
        H[ns * i:ns * i + ns, ns * j:ns * j + ns] += ph * B
        H[ns * j:ns * j + ns, ns * i:ns * i + ns] += np.conj(ph * B).T
    for i, e in enumerate(spec["onsite"]):
        B = block(e) if spin else np.array([[complex(e)]])
        H[ns * i:ns * i + ns, ns * i:ns * i + ns] += B
    return np.linalg.eigvalsh(H)


def ref_bands_tbm(spec, k):
    dim, nw = spec["dim"], spec["nw"]
    H = np.zeros((nw, nw), dtype=complex)
    for amp, i, j, R in spec["hops"]:
        ph = np.exp(2j * np.pi * np.dot(k[:dim], np.array(R)))
        if i == j and all(x == 0 for x in R):
            H[i, i] += 2 * amp.real               # TBmodels: a hopping of an orbital onto itself in the home cell adds 2t
        else:
            H[i, j] += ph * amp
            H[j, i] += np.conj(ph * amp)
    for i, e in enumerate(spec["onsite"]):
        H[i, i] += e
    return np.linalg.eigvalsh(H)


def oracle(ctx, scale):
    from ..wbsys import evalk
    pythtb, tbmodels, System_R, models = imports()
    rng = ctx.rng
    nprng = ctx.nprng()
    N = ctx.n(40, 300) * scale
    for it in range(N):
        kind = rng.choice(["ptb", "ptb", "tbm"])
        k = nprng.uniform(-0.5, 0.5, 3)
        if kind == "ptb":
            m, spec = gen_ptb(rng, pythtb, exact=rng.random() < 0.3)
            case = dict(kind="pythtb", dim=spec["dim"], norb=spec["norb"], spinful=spec["spin"], lattice=spec["lat"],
                        orbitals=spec["orb"], onsite=[str(x) for x in spec["onsite"]],
                        hoppings=[(str(h[0]).replace("\n", " "), h[1], h[2], h[3]) for h in spec["hops"]], k=k)
            ctx.count(f"oracle.pythtb.{'spinful' if spec['spin'] else 'spinless'}.dim{spec['dim']}")
            ctx.case(signature=("ptb", spec["dim"], spec["norb"], spec["spin"], repr(spec["hops"])),
                     nontrivial=any(any(x != 0 for x in h[3]) for h in spec["hops"]))
            if not spec["hops"]:
                ctx.count("oracle.pythtb.no_hoppings")         # atomic limit (repaired defect F17): an ordinary case
            with ctx.attempt("import from PythTB", case):
                with quiet(), warnings.catch_warnings():
                    warnings.simplefilter("ignore")
                    s = System_R.from_pythtb(m)
                E = np.sort(evalk(s, k, ["energy"])["energy"])
                Esrc = np.sort(np.asarray(m.solve_ham([k[:spec["dim"]]])).reshape(-1))
                Eref = ref_bands_ptb(spec, k)
                sc = 1 + np.abs(Eref).max()
                if np.abs(Esrc - Eref).max() > 1e-12 * sc:
                    ctx.note(f"PythTB's own solver differs from the harness reference by {np.abs(Esrc - Eref).max():.2e}")
                if E.shape != Eref.shape or np.abs(E - Eref).max() > 1e-12 * sc or np.abs(E - Esrc).max() > 1e-12 * sc:
                    ctx.fail(f"bands of the imported PythTB model differ from the source: {E} vs {Eref}", case)
                # Hermiticity of the imported matrices
                X = s.get_R_mat("Ham")
                if np.abs(X - s.rvec.conj_XX_R(X)).max() > 1e-14:
                    ctx.fail("imported Ham_R is not Hermitian: H(-R) != H(R)^dagger", case)
        else:
            m, spec = gen_tbm(rng, tbmodels, exact=rng.random() < 0.3)
            case = dict(kind="tbmodels", dim=spec["dim"], size=spec["nw"], lattice=spec["lat"], onsite=spec["onsite"],
                        hoppings=[(str(h[0]), h[1], h[2], h[3]) for h in spec["hops"]], k=k)
            ctx.count(f"oracle.tbmodels.dim{spec['dim']}")
            ctx.case(signature=("tbm", spec["dim"], spec["nw"], repr(spec["hops"])),
                     nontrivial=any(any(x != 0 for x in h[3]) for h in spec["hops"]))
            with ctx.attempt("import from TBmodels", case):
                with quiet(), warnings.catch_warnings():
                    warnings.simplefilter("ignore")
                    s = System_R.from_tbmodels(m)
                E = np.sort(evalk(s, k, ["energy"])["energy"])
                Esrc = np.sort(np.asarray(m.eigenval(k[:spec["dim"]])))
                Eref = ref_bands_tbm(spec, k)
                sc = 1 + np.abs(Eref).max()
                if np.abs(Esrc - Eref).max() > 1e-12 * sc:
                    ctx.note(f"TBmodels' own solver differs from the harness reference by {np.abs(Esrc - Eref).max():.2e}")
                if E.shape != Eref.shape or np.abs(E - Eref).max() > 1e-12 * sc or np.abs(E - Esrc).max() > 1e-12 * sc:
                    ctx.fail(f"bands of the imported TBmodels model differ from the source: {E} vs {Eref}", case)
                X = s.get_R_mat("Ham")
                if np.abs(X - s.rvec.conj_XX_R(X)).max() > 1e-14:
                    ctx.fail("imported Ham_R is not Hermitian: H(-R) != H(R)^dagger", case)

    # ---------------- Haldane_ptb vs Haldane_tbm: the same system for all parameters
    for it in range(ctx.n(8, 40) * scale):
        p = dict(delta=float(nprng.uniform(-1.5, 1.5)), hop1=float(nprng.uniform(-2, 2)), hop2=float(nprng.uniform(-0.6, 0.6)),
                 phi=float(nprng.uniform(-np.pi, np.pi)))
        if it == 0:
            p = dict(delta=0.7, hop1=-1.0, hop2=0.15, phi=np.pi / 2)     # the witness of the repaired defect F8
        drop = rng.sample(sorted(p), rng.randint(0, 2)) if it > 1 else []
        for d in drop:
            p.pop(d)                                                       # leave some parameters at their defaults
        case = dict(parameters=p)
        ctx.case(signature=("haldane", tuple(sorted(p.items()))), nontrivial=True)
        ctx.count("oracle.haldane")
        with ctx.attempt("Haldane_ptb vs Haldane_tbm", case):
            with quiet(), warnings.catch_warnings():
                warnings.simplefilter("ignore")
                mp, mt = models.Haldane_ptb(**p), models.Haldane_tbm(**p)
                sp, st = System_R.from_pythtb(mp), System_R.from_tbmodels(mt)
            bad = []
            if not np.array_equal(sp.rvec.iRvec, st.rvec.iRvec):
                bad.append("R-vectors")
            elif np.abs(sp.get_R_mat("Ham") - st.get_R_mat("Ham")).max() > 1e-15 * (1 + np.abs(sp.get_R_mat("Ham")).max()):
                bad.append(f"Ham_R (max difference {np.abs(sp.get_R_mat('Ham') - st.get_R_mat('Ham')).max():.2e})")
            if np.abs(sp.real_lattice - st.real_lattice).max() > 1e-15:
                bad.append("lattice")
            if np.abs(sp.wannier_centers_cart - st.wannier_centers_cart).max() > 1e-15:
                bad.append("Wannier centres")
            k = nprng.uniform(-0.5, 0.5, 3)
            k[2] = 0
            Ep, Et = evalk(sp, k, ["energy"])["energy"], evalk(st, k, ["energy"])["energy"]
            full = dict(delta=0.2, hop1=-1.0, hop2=0.15, phi=np.pi / 2)
            full.update(p)
            # the Haldane bands from the hopping table of the docstring, in closed form
            a1, a2 = 2 * np.pi * k[0], 2 * np.pi * k[1]
            h2, ph = full["hop2"], full["phi"]
            f = full["hop1"] * (1 + np.exp(-1j * a1) + np.exp(-1j * a2))
            H00 = -full["delta"] + 2 * h2 * (np.cos(a1 + ph) + np.cos(a1 - a2 - ph) + np.cos(a2 - ph))
            H11 = full["delta"] + 2 * h2 * (np.cos(a1 - a2 + ph) + np.cos(a2 + ph) + np.cos(a1 - ph))
            rad = np.sqrt(((H00 - H11) / 2) ** 2 + abs(f) ** 2)
            Ean = np.array([(H00 + H11) / 2 - rad, (H00 + H11) / 2 + rad])
            sc = 1 + np.abs(Ean).max()
            if np.abs(Ep - Et).max() > 1e-13 * sc:
                bad.append(f"bands at k={k}: {Ep} vs {Et}")
            if np.abs(np.sort(Ep) - Ean).max() > 1e-12 * sc:
                bad.append(f"bands of Haldane_ptb {np.sort(Ep)} differ from the analytic Haldane bands {Ean}")
            if bad:
                ctx.fail("Haldane_ptb and Haldane_tbm with the same parameters differ in: " + "; ".join(bad), case)

    # ---------------- the other bundled PythTB builders
    builders = [("Chiral", lambda: models.Chiral(delta=nprng.uniform(0, 3), hop1=nprng.uniform(0.5, 1.5), hop2=nprng.uniform(0, 0.5),
                                                 phi=nprng.uniform(0, 3), hopz_right=nprng.uniform(0, 0.3),
                                                 hopz_left=nprng.uniform(0, 0.3), hopz_vert=nprng.uniform(0, 0.3))),
                ("SSH_ptb", lambda: models.SSH_ptb(delta=nprng.uniform(-1, 1), hop1=nprng.uniform(0.5, 1.5), hop2=nprng.uniform(0, 0.5))),
                ("KaneMele_ptb", lambda: models.KaneMele_ptb(rng.choice(["even", "odd"]))),
                ("CuMnAs_2d", lambda: models.CuMnAs_2d(nx=nprng.uniform(-1, 1), ny=nprng.uniform(-1, 1), nz=nprng.uniform(-1, 1),
                                                       hop2=nprng.uniform(0, 0.2), l=nprng.uniform(0.3, 1), J=nprng.uniform(0.2, 1)))]
    for it in range(ctx.n(4, 16) * scale):
        name, mk = builders[it % len(builders)]
        case = dict(builder=name)
        with ctx.attempt(f"bundled model {name}", case):
            with quiet(), warnings.catch_warnings():
                warnings.simplefilter("ignore")
                m = mk()
                s = System_R.from_pythtb(m)
            dim = m.dim_k
            k = nprng.uniform(-0.5, 0.5, 3)
            k[dim:] = 0
            E = np.sort(evalk(s, k, ["energy"])["energy"])
            Esrc = np.sort(np.asarray(m.solve_ham([k[:dim]])).reshape(-1))
            ctx.case(signature=("bundled", name, it), nontrivial=True)
            ctx.count(f"oracle.bundled.{name}")
            if E.shape != Esrc.shape or np.abs(E - Esrc).max() > 1e-12 * (1 + np.abs(Esrc).max()):
                ctx.fail(f"bands of the imported {name} model differ from PythTB's: {E} vs {Esrc}", dict(case, k=k))


def replay(ctx, case):
    oracle(ctx, 1)
