"""C09 - point-group operations form a group acting on tensors."""
import ast
import itertools
import math
import os
from fractions import Fraction as Fr

import numpy as np

from ..common import rats, ints, quiet, REPO

PID = "C09"
CLAIM = dict(
    design="3/C09",
    technique="Lean 4 proof over an executable model of PointSymmetry / PointGroup / Transform (matrices over any "
              "ordered field, tensors of every rank over any field with an involution) + exact differential "
              "correspondence on rational/integer data + property oracle on the real objects",
    text="Theorems (every ordered field F for the matrices, every field K with an involutive automorphism for the "
         "tensor components, every rank): __init__/__mul__ keep (proper part, Inv, TR) consistent with the full matrix, "
         "the product is associative and acts on Cartesian and reduced k-vectors as the composition; if the closure loop "
         "of PointGroup.__init__ returns, the list is product closed, contains the generators (read with repetitions dropped), is duplicate free, "
         "and is the generated group; a non-empty duplicate-free closed list of proper operations "
         "contains the identity and two-sided inverses; check_basis_symmetry true => lattice mapped into and onto "
         "itself, symmetric_grid true => grid mapped into itself; transform_tensor(g) o transform_tensor(h) = "
         "transform_tensor(g*h) and identity acts trivially for all Transform pairs meeting the decidable side condition "
         "(evaluated by the check for every (transformTR, transformInv) pair assigned anywhere in the package source); "
         "symmetrize_tensor is idempotent, invariant under every element, and fixes exactly the invariant tensors (also "
         "proved for any list-group acting additively); star = images with later duplicates (mod lattice) removed: "
         "sublist, pairwise inequivalent, covers every image, first occurrence kept.  Named operations: Rotation(n, axis) "
         "(n in 1,2,3,4,6; axes x,y,z and body diagonals; Rodrigues matrix, sqrt3 a parameter with s3^2=3) is a proper "
         "operation with an orthogonal matrix of determinant 1 and order n, Mirror(axis) is minus the two-fold rotation "
         "(det -1, involution), every name of dict_sym denotes the documented matrix and TR flag, from_string_prod is the "
         "left-to-right product.  EnergyResult / KBandResult / ResultDict.transform delegate to transform_tensor with the "
         "result's own rank and transforms, hence PointGroup.symmetrize(result) is idempotent and invariant.",
    note="Trusted: Lean kernel + Mathlib; the harness; the tolerances 1e-12 (__eq__) and 1e-6 (lattice/star) are "
         "modelled as exact comparisons and inputs keep a >=1e3 margin; numpy matmul/det/inv by contract. "
         "Result.transform / PointGroup.symmetrize(result) glue is checked on the real code, not modelled. "
         "Repaired while building this check: a generator listed twice is now read once (was: size 5 for ['C4z','C4z'], "
         "symmetrize not a projection); rank-0 tensors given as 0-d arrays are accepted (was: IndexError / TypeError in gen_symmetric_tensor(0, ..)).",
)
TRUSTED = [
    "modelled: PointSymmetry.__init__/__mul__/__eq__/transform_reduced_vector/rotate/transform_tensor, the closure loop of "
    "PointGroup.__init__, check_basis_symmetry, symmetric_grid, symmetrize_tensor, star, Transform.__call__ "
    "(factor, conj, transpose_axes; swap_axes of two trailing axes is mapped to a transposition by the harness), TransformProduct",
    "also modelled: Rotation(n, axis) for n in {1,2,3,4,6} and axes +-x, +-y, +-z, (+-1,+-1,+-1) (Rodrigues' formula; "
    "scipy's from_rotvec(..).as_matrix() and the axis normalisation are the contract), Mirror, dict_sym, from_string_prod "
    "(executed in Q(sqrt 3)); Result.transform / ResultDict.transform / PointGroup.symmetrize(result) as delegation to "
    "transform_tensor (leading energy / band axes: slice by slice)",
    "not modelled (oracle only): Rotation about general axes or with other n, the spacegroup/dictionary branches of "
    "PointGroup.__init__, leading (non-tensor) axes of the data",
    "tolerances of the code (1e-12 in __eq__, 1e-6 in check_basis_symmetry / star) are exact comparisons in the model; "
    "generated matrices, lattices and k-points are rational so that non-ties are >= 1e-3 away",
    "hexagonal / rhombohedral groups are compared in lattice coordinates (integer matrices Q = A^-T R A^T, Gram matrix "
    "rational); the change of coordinates is done by the harness and verified numerically (residual < 1e-9)",
    "np.linalg.inv / det / matmul: exact inverse / determinant / product (contract); numpy in-place transposed "
    "assignment res[:] = res.transpose(..) is overlap safe (contract)",
]
RULE = ("groups generated from 1-3 random generators (optionally combined with time reversal, optionally plus pure TR) "
        "drawn from cubic (P, F, I lattices), tetragonal (P, I), orthorhombic (P, C), monoclinic, hexagonal and rhombohedral "
        "operation pools, 30 % of them on a non-reduced (oblique) description U.A of the cell; tensors of rank 0-4 with Gaussian-integer entries; Transform pairs from factor x conj x "
        "transposition; k-points with denominators 2,3,4,6,8 including symmetry planes and zone faces. non-trivial = group "
        "order >= 4 (group level) or rank >= 1 with a non-identity element (tensor level); distinct = distinct protocol "
        "line / distinct (group, element pair, rank, transforms, data hash)")

SQ3 = math.sqrt(3.0)

# ------------------------------------------------------------------------------------------------
# operation pools (Cartesian matrices).  Integer ones are exact; hexagonal ones contain sqrt(3)/2.

I3 = [[1, 0, 0], [0, 1, 0], [0, 0, 1]]


def _neg(m):
    return [[-x for x in r] for r in m]


def _rotz(n):
    c, s = math.cos(2 * math.pi / n), math.sin(2 * math.pi / n)
    # exact values for n = 3, 6
    if n == 3:
        c, s = -0.5, SQ3 / 2
    if n == 6:
        c, s = 0.5, SQ3 / 2
    return [[c, -s, 0], [s, c, 0], [0, 0, 1]]


CART = {
    "E": I3,
    "C4z": [[0, -1, 0], [1, 0, 0], [0, 0, 1]],
    "C4x": [[1, 0, 0], [0, 0, -1], [0, 1, 0]],
    "C4y": [[0, 0, 1], [0, 1, 0], [-1, 0, 0]],
    "C3d": [[0, 0, 1], [1, 0, 0], [0, 1, 0]],       # three-fold about (111)
    "C2z": [[-1, 0, 0], [0, -1, 0], [0, 0, 1]],
    "C2x": [[1, 0, 0], [0, -1, 0], [0, 0, -1]],
    "C2y": [[-1, 0, 0], [0, 1, 0], [0, 0, -1]],
    "C2a": [[0, 1, 0], [1, 0, 0], [0, 0, -1]],      # two-fold about (110)
    "C2b": [[0, -1, 0], [-1, 0, 0], [0, 0, -1]],    # two-fold about (1-10)
}
for _k in list(CART):
    if _k != "E":
        CART["I" + _k] = _neg(CART[_k])             # improper partners: IC2z = Mz, IC4z = S4z^-1, ...
CART["I"] = _neg(I3)
HEXOPS = {
    "E": I3, "C6z": _rotz(6), "C3z": _rotz(3), "C2z": CART["C2z"], "C2x": CART["C2x"], "C2y": CART["C2y"],
    "I": CART["I"], "Mz": CART["IC2z"], "Mx": CART["IC2x"], "My": CART["IC2y"],
}

POOLS = {
    "cubic": ["C4z", "C4x", "C4y", "C3d", "C2z", "C2x", "C2a", "I", "IC2z", "IC2x", "IC2a", "IC4z", "IC2b", "C2b"],
    "tetra": ["C4z", "C2z", "C2x", "C2y", "C2a", "I", "IC2z", "IC2x", "IC2a", "IC4z"],
    "ortho": ["C2z", "C2x", "C2y", "I", "IC2z", "IC2x", "IC2y"],
    "hex": ["C6z", "C3z", "C2z", "C2x", "C2y", "I", "Mz", "Mx", "My"],
    "rhombo": ["C3z", "C2y", "I", "My"],
    "mono": ["C2z", "I", "IC2z"],
}


def lattices(rng, family):
    """(name, real lattice rows as Fractions or floats, exact?)"""
    a = Fr(rng.choice([4, 5, 6, 8]), 4)
    b = a * Fr(rng.choice([5, 6, 7]), 4)
    c = a * Fr(rng.choice([3, 5, 7, 9]), 4)
    h = Fr(1, 2)
    if family == "cubic":
        return rng.choice([
            ("cP", [[a, 0, 0], [0, a, 0], [0, 0, a]]),
            ("cF", [[0, a * h, a * h], [a * h, 0, a * h], [a * h, a * h, 0]]),
            ("cI", [[-a * h, a * h, a * h], [a * h, -a * h, a * h], [a * h, a * h, -a * h]]),
        ])
    if family == "tetra":
        return rng.choice([
            ("tP", [[a, 0, 0], [0, a, 0], [0, 0, c]]),
            ("tI", [[-a * h, a * h, c * h], [a * h, -a * h, c * h], [a * h, a * h, -c * h]]),
        ])
    if family == "ortho":
        return rng.choice([
            ("oP", [[a, 0, 0], [0, b, 0], [0, 0, c]]),
            ("oC", [[a * h, -b * h, 0], [a * h, b * h, 0], [0, 0, c]]),
        ])
    if family == "mono":
        return ("mP", [[a, 0, 0], [b * Fr(1, 4), b, 0], [0, 0, c]])
    if family == "hex":
        af, cf = float(a), float(c)
        return ("hP", [[af, 0, 0], [-af / 2, af * SQ3 / 2, 0], [0, 0, cf]],
                [[a * a, -a * a / 2, 0], [-a * a / 2, a * a, 0], [0, 0, c * c]])
    if family == "rhombo":
        # a_k = (rho cos(2 pi k/3), rho sin(2 pi k/3), hh), Gram: rho^2 on the diagonal + hh^2, -rho^2/2 + hh^2 off
        rho, hh = a, c * Fr(1, 2)
        rf, hf = float(rho), float(hh)
        A = [[rf, 0, hf], [-rf / 2, rf * SQ3 / 2, hf], [-rf / 2, -rf * SQ3 / 2, hf]]
        d, o = rho * rho + hh * hh, -rho * rho / 2 + hh * hh
        return ("hR", A, [[d, o, o], [o, d, o], [o, o, d]])
    raise ValueError(family)


# ------------------------------------------------------------------------------------------------
# exact 3x3 helpers on Fractions

def fmat(m):
    return [[Fr(x) for x in r] for r in m]


def fmul(a, b):
    return [[sum(a[i][k] * b[k][j] for k in range(3)) for j in range(3)] for i in range(3)]


def ftrans(a):
    return [[a[j][i] for j in range(3)] for i in range(3)]


def fdet(a):
    return (a[0][0] * (a[1][1] * a[2][2] - a[1][2] * a[2][1]) - a[0][1] * (a[1][0] * a[2][2] - a[1][2] * a[2][0])
            + a[0][2] * (a[1][0] * a[2][1] - a[1][1] * a[2][0]))


def finv(a):
    d = fdet(a)
    return [[(a[(j + 1) % 3][(i + 1) % 3] * a[(j + 2) % 3][(i + 2) % 3]
              - a[(j + 1) % 3][(i + 2) % 3] * a[(j + 2) % 3][(i + 1) % 3]) / d for j in range(3)] for i in range(3)]


def flat(m):
    return [x for r in m for x in r]


def ratss_m(ms):
    return ";".join(rats(flat(m)) for m in ms) if ms else "_"


class Family:
    """a lattice + a way to go between Cartesian floats (the code) and exact model coordinates"""

    def __init__(self, rng, family, oblique=False):
        """oblique=True: the same lattice described by a non-reduced primitive cell U @ A (U a random integer matrix of
        determinant 1); the group and all Cartesian objects are unchanged, the reduced matrices become sheared."""
        self.family = family
        lat = lattices(rng, family)
        self.name = lat[0] + ("-oblique" if oblique else "")
        self.exact = family not in ("hex", "rhombo")
        self.U = fmat(I3)
        if oblique:
            while self.U == fmat(I3):
                for _ in range(rng.choice([1, 1, 2, 3])):
                    i, j = rng.sample(range(3), 2)
                    E = fmat(I3)
                    E[i][j] = Fr(rng.choice([1, -1, 1, -1, 2, -2]))
                    self.U = fmul(E, self.U)
        Uf = np.array([[float(x) for x in r] for r in self.U])
        self.A = Uf @ np.array([[float(x) for x in r] for r in lat[1]])      # real lattice (rows), floats
        if self.exact:
            self.Aex = fmul(self.U, fmat(lat[1]))
            self.basis_real = self.Aex                                        # model coordinates = Cartesian
            self.basis_recip = ftrans(finv(self.Aex))                         # B / 2 pi  (the factor cancels)
            self.T = np.eye(3)                                                # v_cart = T y
        else:
            G = fmul(fmul(self.U, fmat(lat[2])), ftrans(self.U))
            assert np.abs(np.array([[float(x) for x in r] for r in G]) - self.A @ self.A.T).max() < 1e-12
            self.basis_real = fmat(I3)                                        # model coordinates = lattice coordinates
            self.basis_recip = finv(G)
            self.T = self.A.T
        self.Tinv = np.linalg.inv(self.T)
        self.pool = POOLS[family]
        self.ops = HEXOPS if family in ("hex", "rhombo") else CART

    def cart(self, opname):
        return np.array(self.ops[opname], dtype=float)

    def conv_to_cell(self, s):
        """reduced coordinates w.r.t. the conventional cell -> reduced coordinates w.r.t. this (possibly oblique) cell"""
        Ui = finv(self.U)
        return tuple(sum(Fr(s[i]) * Ui[i][j] for i in range(3)) for j in range(3))

    def to_model(self, Rcart):
        """exact matrix of a Cartesian operation in model coordinates"""
        Q = self.Tinv @ Rcart @ self.T
        Qr = np.round(Q)
        if np.abs(Q - Qr).max() > 1e-9:
            raise ValueError(f"operation does not preserve the lattice {self.name}: residual {np.abs(Q - Qr).max()}")
        return [[int(x) for x in r] for r in Qr]

    def tensor_to_cart(self, x, rank):
        """components in model coordinates -> Cartesian components (last `rank` axes)"""
        if self.exact or rank == 0:
            return x
        y = x
        nd = y.ndim
        for ax in range(nd - rank, nd):
            y = np.moveaxis(np.tensordot(y, self.T, axes=([ax], [1])), -1, ax)
        return y


# ------------------------------------------------------------------------------------------------
# independent exact group closure (reference for the oracle)

def ref_closure(gens):
    """gens: list of (full integer matrix as tuple of 9, tr).  Breadth-first closure with exact integers."""
    def mul(a, b):
        A, B = a[0], b[0]
        M = tuple(sum(A[3 * i + k] * B[3 * k + j] for k in range(3)) for i in range(3) for j in range(3))
        return (M, a[1] != b[1])
    ident = ((1, 0, 0, 0, 1, 0, 0, 0, 1), False)
    elems = {ident}
    frontier = [ident]
    while frontier:
        new = []
        for x in frontier:
            for g in gens:
                y = mul(g, x)
                if y not in elems:
                    elems.add(y)
                    new.append(y)
                    if len(elems) > 1000:
                        return None
        frontier = new
    return elems


def random_generators(rng, fam, max_order):
    """1-3 generator names (+ TR flags) whose exact closure has at most max_order elements"""
    for _ in range(50):
        n = rng.choice([1, 1, 2, 2, 2, 3])
        names = [rng.choice(fam.pool) for _ in range(n)]
        mode = rng.choice(["none", "none", "some", "some", "pureTR"])
        trs = [mode == "some" and rng.random() < 0.6 for _ in names]
        if mode == "pureTR":
            names.append("E")
            trs.append(True)
        gens = []
        ok = True
        for nm, tr in zip(names, trs):
            try:
                Q = fam.to_model(fam.cart(nm))
            except ValueError:
                ok = False
                break
            gens.append((tuple(flat(Q)), tr))
        if not ok:
            continue
        if rng.random() < 0.2 and gens:
            # a generator listed twice (or three times) must be read once
            r = rng.randrange(len(gens))
            pos = rng.randrange(len(gens) + 1)
            gens.insert(pos, gens[r]); names.insert(pos, names[r]); trs.insert(pos, trs[r])
            if rng.random() < 0.3:
                gens.append(gens[r]); names.append(names[r]); trs.append(trs[r])
        cl = ref_closure(gens)
        if cl is not None and len(cl) <= max_order:
            return names, trs, gens, cl
    return ["C2z"], [False], [(tuple(flat(fam.to_model(fam.cart("C2z")))), False)], None


# full holohedries and magnetic variants that random small generator sets rarely reach
CURATED = [
    ("cubic", ["C4z", "C3d"], [False, False]),                      # O, 24
    ("hex", ["C6z", "C2x", "I"], [False, False, False]),            # D6h, 24
    ("tetra", ["C4z", "C2x", "I"], [False, True, False]),           # 4/mm'm', 16
    ("rhombo", ["C3z", "C2y", "I"], [False, False, True]),          # -3'm', 12
    ("cubic", ["C4z", "C3d", "I"], [False, False, False]),          # Oh, 48
    ("cubic", ["C4z", "C3d", "I", "E"], [True, False, False, True]),  # Oh x {E, T}, 96 (thorough only)
]


def pick_generators(rng, ig, famname, max_order, n_curated):
    """the first n_curated groups are the curated ones, the rest random"""
    if ig < n_curated:
        famname, names, trs = CURATED[ig]
        fam = Family(rng, famname)
        gens = [(tuple(flat(fam.to_model(fam.cart(nm)))), tr) for nm, tr in zip(names, trs)]
        return fam, famname, list(names), list(trs), gens, ref_closure(gens)
    fam = Family(rng, famname, oblique=rng.random() < 0.3)
    names, trs, gens, cl = random_generators(rng, fam, max_order)
    return fam, famname, names, trs, gens, cl


def build_code_group(fam, names, trs, with_lattice=True):
    from wannierberri.symmetry.point_symmetry import PointSymmetry, PointGroup
    gens = [PointSymmetry(fam.cart(nm), TR=bool(tr)) for nm, tr in zip(names, trs)]
    with quiet():
        if with_lattice:
            return PointGroup(gens, real_lattice=fam.A)
        return PointGroup(gens)


def code_elements(fam, group):
    """the code's list as exact (proper matrix in model coords, inv, tr)"""
    out = []
    for s in group.symmetries:
        out.append((fam.to_model(np.array(s.R, dtype=float)), bool(s.Inv), bool(s.TR)))
    return out


def wire_elems(elems):
    return (ratss_m([e[0] for e in elems]), ints([int(e[1]) for e in elems]), ints([int(e[2]) for e in elems]))


def parse_elems(out):
    a, b, c = out.split(" ")
    ms = [] if a == "_" else [[Fr(t) for t in m.split(",")] for m in a.split(";")]
    invs = [] if b == "_" else [t == "1" for t in b.split(",")]
    trs = [] if c == "_" else [t == "1" for t in c.split(",")]
    return [([m[0:3], m[3:6], m[6:9]], i, t) for m, i, t in zip(ms, invs, trs)]


# ------------------------------------------------------------------------------------------------
# Transforms

def all_perms(rank):
    return [None] + [p for p in itertools.permutations(range(rank)) if p != tuple(range(rank))] if rank >= 2 else [None]


def involutive(p):
    return p is None or all(p[p[i]] == i for i in range(len(p)))


def commute(p, q):
    if p is None or q is None:
        return True
    return all(p[q[i]] == q[p[i]] for i in range(len(p)))


def rand_transform(rng, rank, need_involution):
    perms = all_perms(rank)
    if need_involution:
        perms = [p for p in perms if involutive(p)]
    p = rng.choice(perms) if rng.random() < 0.6 else None
    return dict(factor=rng.choice([1, -1]), conj=rng.random() < 0.4, axes=p)


def rand_transform_pair(rng, rank, valid=True):
    for _ in range(100):
        a = rand_transform(rng, rank, valid)
        b = rand_transform(rng, rank, valid)
        if not valid or commute(a["axes"], b["axes"]):
            return a, b
    return dict(factor=-1, conj=False, axes=None), dict(factor=1, conj=False, axes=None)


def code_transform(t, use_swap=False):
    from wannierberri.symmetry.point_symmetry import Transform
    p = t["axes"]
    if use_swap and p is not None:
        moved = [i for i in range(len(p)) if p[i] != i]
        if len(moved) == 2 and p[moved[0]] == moved[1]:
            n = len(p)
            return Transform(factor=t["factor"], conj=t["conj"], swap_axes=(moved[0] - n, moved[1] - n))
    return Transform(factor=t["factor"], conj=t["conj"], transpose_axes=p)


def wire_transform(t):
    p = t["axes"]
    return f"{int(t['factor'] == -1)} {int(bool(t['conj']))} {'N' if p is None else ints(p)}"


def ref_apply_transform(t, x):
    """reference semantics written from the docstring: permute the tensor axes, conjugate, multiply"""
    y = x
    if t["axes"] is not None:
        n = len(t["axes"])
        lead = y.ndim - n
        y = np.transpose(y, tuple(range(lead)) + tuple(lead + a for a in t["axes"]))
    if t["conj"]:
        y = np.conj(y)
    return y * t["factor"]


def ref_transform_tensor(Rproper, inv, tr, x, rank, tT, tI):
    """reference: y[.., i1..ir] = sum_j R[i1,j1]..R[ir,jr] x[.., j1..jr]; then TR transform, then Inv transform"""
    y = np.array(x, dtype=complex)
    nd = y.ndim
    for ax in range(nd - rank, nd):
        y = np.moveaxis(np.tensordot(y, Rproper, axes=([ax], [1])), -1, ax)
    if tr:
        y = ref_apply_transform(tT, y)
    if inv:
        y = ref_apply_transform(tI, y)
    return y


def rand_tensor(rng, rank, lead=()):
    shape = tuple(lead) + (3,) * rank
    n = int(np.prod(shape)) if shape else 1
    re = np.array([rng.randint(-4, 4) for _ in range(n)], dtype=float).reshape(shape)
    im = np.array([rng.randint(-3, 3) for _ in range(n)], dtype=float).reshape(shape)
    return re + 1j * im


def wire_tensor(x):
    f = np.asarray(x).reshape(-1)
    return rats([Fr(float(v.real)) for v in f]) + " " + rats([Fr(float(v.imag)) for v in f])


def parse_tensor(out, rank):
    a, b = out.split(" ")
    re = [Fr(t) for t in a.split(",")]
    im = [Fr(t) for t in b.split(",")]
    return (np.array([float(v) for v in re]) + 1j * np.array([float(v) for v in im])).reshape((3,) * rank)


def kpoints(rng):
    dens = rng.choice([2, 3, 4, 6, 8])
    k = [Fr(rng.randint(-dens, dens), dens) for _ in range(3)]
    style = rng.random()
    if style < 0.25:
        k[rng.randrange(3)] = Fr(0)
    elif style < 0.4:
        k[rng.randrange(3)] = Fr(1, 2)
    elif style < 0.5:
        k[1] = k[0]
    elif style < 0.55:
        k = [Fr(0), Fr(0), Fr(0)]
    return k


# ------------------------------------------------------------------------------------------------
# every (transformTR, transformInv) pair assigned in the package source

def source_transform_pairs():
    """AST scan: functions that assign both self.transformTR and self.transformInv to names defined in
    point_symmetry.  Returns list of (where, nameTR, nameInv)."""
    root = os.path.join(REPO, "wannierberri")
    pairs = []
    for dp, _, fns in os.walk(root):
        for fn in fns:
            if not fn.endswith(".py"):
                continue
            path = os.path.join(dp, fn)
            try:
                tree = ast.parse(open(path).read())
            except SyntaxError:
                continue
            for node in ast.walk(tree):
                if isinstance(node, (ast.FunctionDef,)):
                    found = {}
                    for sub in ast.walk(node):
                        if isinstance(sub, ast.Assign) and len(sub.targets) == 1:
                            t = sub.targets[0]
                            if isinstance(t, ast.Attribute) and t.attr in ("transformTR", "transformInv") \
                                    and isinstance(t.value, ast.Name) and t.value.id == "self":
                                found.setdefault(t.attr, []).append(ast.unparse(sub.value))
                    if "transformTR" in found and "transformInv" in found:
                        for a in found["transformTR"]:
                            for b in found["transformInv"]:
                                pairs.append((os.path.relpath(path, root) + ":" + node.name, a, b))
    return pairs


def corr_side_conditions(ctx, lines, checks):
    import wannierberri.symmetry.point_symmetry as ps
    pairs = source_transform_pairs()
    ctx.count("corr.source_transform_pairs", len(pairs))
    seen = set()
    unresolved = 0
    for where, a, b in pairs:
        ta, tb = getattr(ps, a, None), getattr(ps, b, None)
        if not isinstance(ta, ps.Transform) or not isinstance(tb, ps.Transform):
            unresolved += 1     # TransformProduct(...) / copied from another object: factor and conj only
            continue
        key = (a, b)
        if key in seen:
            continue
        seen.add(key)
        pa, pb = ta.transpose_axes, tb.transpose_axes
        if ta.swap_axes is not None or tb.swap_axes is not None:
            ctx.mismatch(f"Transform with swap_axes used in {where}: not covered by the side-condition check", dict(pair=key))
            continue
        rank = max(len(pa) if pa else 0, len(pb) if pb else 0, 2)
        da = dict(factor=ta.factor, conj=ta.conj, axes=pa)
        db = dict(factor=tb.factor, conj=tb.conj, axes=pb)
        if (pa is not None and len(pa) != rank) or (pb is not None and len(pb) != rank):
            ctx.mismatch(f"transposes of different length in {where}", dict(pair=key))
            continue
        lines.append(f"side {rank} {wire_transform(da)} {wire_transform(db)}")
        checks.append(("side", dict(where=where, pair=key), "1"))
    ctx.count("corr.distinct_source_transform_pairs", len(seen))
    ctx.count("corr.source_pairs_not_module_constants", unresolved)
    if not seen:
        ctx.mismatch("no (transformTR, transformInv) assignments found in the package source", {})


# ------------------------------------------------------------------------------------------------

def _raises(f):
    try:
        f()
        return False
    except Exception:  # noqa
        return True


def corr(ctx):
    from wannierberri.symmetry.point_symmetry import PointSymmetry, TransformProduct
    rng = ctx.rng
    lines, checks = [], []      # checks[i] = (kind, case, expected string or callable(out)->msg|None)
    corr_side_conditions(ctx, lines, checks)

    fam_names = ["cubic", "tetra", "ortho", "hex", "rhombo", "cubic", "tetra", "hex"]
    ngroups = ctx.n(7, 40)
    gen_lines, gen_info = [], []
    for ig in range(ngroups):
        famname = fam_names[ig % len(fam_names)] if ig < len(fam_names) else rng.choice(fam_names)
        # (the interpreted model needs ~|G|^3 comparisons for the closure loop: orders 48 / 96 in the thorough tier only)
        max_order = (96 if ig % 5 == 0 else 48) if ctx.tier == "thorough" else 24
        fam, famname, names, trs, gens, cl = pick_generators(rng, ig, famname, max_order, ctx.n(4, 6))
        case = dict(family=famname, lattice=fam.name, generators=names, TR=trs)
        with ctx.attempt("PointGroup construction", case):
            grp = build_code_group(fam, names, trs)
            elems = code_elements(fam, grp)
            gen_lines.append(f"gen {ratss_m([[g[0][0:3], g[0][3:6], g[0][6:9]] for g in gens])} "
                             f"{ints([int(g[1]) for g in gens])}")
            gen_info.append((fam, grp, elems, case))
            ctx.count(f"corr.family={famname}")
            ctx.count(f"corr.order={len(elems)}")
    # (one driver run for everything: the lines below use the code's element lists, which the `gen` lines tie to the model)
    for (fam, grp, elems, case), line in zip(gen_info, gen_lines):
        cel = [([[Fr(x) for x in r] for r in e[0]], e[1], e[2]) for e in elems]
        lines.append(line)
        checks.append(("gen", case, ("elems", cel)))
        w = wire_elems(elems)
        n = len(elems)
        # --- multiplication table
        with ctx.attempt("multiplication table", case):
            tab = []
            for s1 in grp.symmetries:
                row = []
                for s2 in grp.symmetries:
                    p = s1 * s2
                    idx = [i for i, t in enumerate(grp.symmetries) if t == p]
                    row.append(idx[0] if idx else n)
                tab.append(row)
            lines.append(f"table {w[0]} {w[1]} {w[2]}")
            checks.append(("table", case, ";".join(",".join(str(v) for v in r) for r in tab)))
        # --- single products / constructor on random full matrices (also singular-free improper ones)
        for _ in range(2):
            i, j = rng.randrange(n), rng.randrange(n)
            with ctx.attempt("__mul__", case):
                p = grp.symmetries[i] * grp.symmetries[j]
                pe = (fam.to_model(np.array(p.R, dtype=float)), bool(p.Inv), bool(p.TR))
                sub = [elems[i], elems[j]]
                ws = wire_elems(sub)
                lines.append(f"mul {ws[0]} {ws[1]} {ws[2]}")
                we = wire_elems([pe])
                checks.append(("mul", dict(case, i=i, j=j), f"{we[0]} {we[1]} {we[2]}"))
        # --- documented action on Cartesian vectors: iTR*iInv*(R @ k) -- only meaningful in Cartesian model coords
        if fam.exact:
            kc = [Fr(rng.randint(-5, 5), rng.choice([1, 2, 4])) for _ in range(3)]
            with ctx.attempt("action on Cartesian k", case):
                res = [s.iTR * s.iInv * (np.array(s.R, dtype=float) @ np.array([float(x) for x in kc]))
                       for s in grp.symmetries]
                lines.append(f"act {w[0]} {w[1]} {w[2]} {rats(kc)}")
                checks.append(("act", dict(case, k=[str(x) for x in kc]),
                               ";".join(rats([Fr(float(v)) for v in r]) for r in res)))
        # --- star and images
        for _ in range(ctx.n(3, 6)):
            k = kpoints(rng)
            kf = np.array([float(x) for x in k])
            with ctx.attempt("star", dict(case, k=[str(x) for x in k])):
                st = grp.star(kf)
                lines.append(f"star {w[0]} {w[1]} {w[2]} {rats(flat(fam.basis_recip))} {rats(k)}")
                checks.append(("star", dict(case, k=[str(x) for x in k]), ("vecs", st)))
                ctx.count(f"corr.star.size={len(st)}/{n}")
        # --- lattice checks: own lattices, and perturbed / foreign bases
        with ctx.attempt("check_basis_symmetry", case):
            for which in ("real", "recip", "foreign", "foreign"):
                if which == "real":
                    basis_code, basis_model = fam.A, fam.basis_real
                elif which == "recip":
                    basis_code, basis_model = grp.recip_lattice, fam.basis_recip
                else:
                    # a rational basis in model coordinates that is (usually) not invariant
                    while True:
                        bm = [[Fr(rng.randint(-3, 3), rng.choice([1, 2])) for _ in range(3)] for _ in range(3)]
                        if fdet(bm) != 0:
                            break
                    if rng.random() < 0.5:
                        bm = fmul([[Fr(rng.choice([1, 2, 3])) if i == j else Fr(0) for j in range(3)] for i in range(3)],
                                  fam.basis_real)
                    basis_model = bm
                    basis_code = np.array([[float(x) for x in r] for r in bm]) @ fam.T.T
                got = bool(grp.check_basis_symmetry(basis_code))
                lines.append(f"checkbasis {w[0]} {w[1]} {w[2]} {rats(flat(basis_model))}")
                checks.append(("checkbasis", dict(case, which=which, basis=[str(x) for x in flat(basis_model)]),
                               str(int(got))))
                ctx.count(f"corr.checkbasis.{which}={got}")
            for _ in range(3):
                nk = [rng.choice([1, 2, 3, 4, 6]) for _ in range(3)]
                if rng.random() < 0.5:
                    nk[1] = nk[0]
                if rng.random() < 0.3:
                    nk[2] = nk[0]
                got = bool(grp.symmetric_grid(nk))
                lines.append(f"symgrid {w[0]} {w[1]} {w[2]} {rats(flat(fam.basis_recip))} {ints(nk)}")
                checks.append(("symgrid", dict(case, nk=nk), str(int(got))))
                ctx.count(f"corr.symgrid={got}")
        # --- transform_tensor / symmetrize_tensor on Gaussian-integer tensors
        for _ in range(ctx.n(4, 8)):
            rank = rng.choice([0, 1, 1, 2, 2, 3, 3, 4])
            tT, tI = rand_transform_pair(rng, rank, valid=rng.random() < 0.7)
            x = rand_tensor(rng, rank)
            i = rng.randrange(n)
            s = grp.symmetries[i]
            tcase = dict(case, element=i, rank=rank, tTR=tT, tInv=tI)
            with ctx.attempt("transform_tensor", tcase):
                xc = fam.tensor_to_cart(x, rank)
                use_swap = rng.random() < 0.3
                data = xc if (rank > 0 or rng.random() < 0.5) else xc.reshape((1,))     # rank 0: 0-d array or shape (1,)
                got = s.transform_tensor(data, rank, code_transform(tT, use_swap), code_transform(tI, use_swap))
                we = wire_elems([elems[i]])
                lines.append(f"tt {we[0]} {we[1]} {we[2]} {rank} {wire_transform(tT)} {wire_transform(tI)} {wire_tensor(x)}")
                checks.append(("tt", tcase, ("tensor", fam, rank, np.asarray(got).reshape((3,) * rank), fam.exact)))
                ctx.count(f"corr.tt.rank={rank}")
        if n <= 48:
            for _ in range(2):
                # cost of the interpreted model ~ |G| * 9^rank: rank 3 only for small groups (quick tier)
                rank = rng.choice([1, 2, 3]) if (n <= 8 or ctx.tier == "thorough") else rng.choice([0, 1, 2, 2])
                tT, tI = rand_transform_pair(rng, rank, valid=True)
                x = rand_tensor(rng, rank)
                tcase = dict(case, rank=rank, tTR=tT, tInv=tI)
                with ctx.attempt("symmetrize_tensor", tcase):
                    xc = fam.tensor_to_cart(x, rank)
                    data = xc if (rank > 0 or rng.random() < 0.5) else xc.reshape((1,))
                    got = grp.symmetrize_tensor(data, code_transform(tT), code_transform(tI), rank=rank)
                    lines.append(f"sym {w[0]} {w[1]} {w[2]} {rank} {wire_transform(tT)} {wire_transform(tI)} {wire_tensor(x)}")
                    checks.append(("sym", tcase, ("tensor", fam, rank, np.asarray(got).reshape((3,) * rank), False)))
                    ctx.count(f"corr.sym.rank={rank}")

    # --- constructor on arbitrary nonsingular matrices (improper, non-orthogonal: the code does not require orthogonality)
    for _ in range(ctx.n(20, 100)):
        while True:
            M = [[rng.randint(-3, 3) for _ in range(3)] for _ in range(3)]
            if fdet(fmat(M)) != 0:
                break
        tr = rng.random() < 0.5
        with ctx.attempt("PointSymmetry.__init__", dict(M=M, tr=tr)):
            s = PointSymmetry(np.array(M, dtype=float), TR=tr)
            e = ([[int(round(v)) for v in r] for r in s.R], bool(s.Inv), bool(s.TR))
            we = wire_elems([e])
            lines.append(f"mk {rats(flat(M))} {int(tr)}")
            checks.append(("mk", dict(M=M, tr=tr), f"{we[0]} {we[1]} {we[2]}"))

    # --- Transform.__call__ alone and TransformProduct
    for _ in range(ctx.n(20, 100)):
        rank = rng.choice([1, 2, 3, 4])
        t = rand_transform(rng, rank, need_involution=False)
        x = rand_tensor(rng, rank)
        with ctx.attempt("Transform.__call__", dict(rank=rank, t=t)):
            got = code_transform(t)(np.array(x))
            lines.append(f"tf {rank} {wire_transform(t)} {wire_tensor(x)}")
            checks.append(("tf", dict(rank=rank, t=t), ("tensor", None, rank, got, True)))
    for _ in range(ctx.n(15, 60)):
        ts = [dict(factor=rng.choice([1, -1]), conj=rng.random() < 0.3,
                   axes=((1, 0) if rng.random() < 0.1 else None)) for _ in range(rng.randint(1, 4))]
        try:
            tp = TransformProduct([code_transform(t) for t in ts])
            exp = f"{int(tp.factor == -1)} {int(bool(tp.conj))}"
            if tp.transpose_axes is not None or tp.swap_axes is not None:
                exp = "has-axes"
        except (ValueError, NotImplementedError):
            exp = "ERR"
        lines.append("tprod " + " ".join(wire_transform(t) for t in ts))
        checks.append(("tprod", dict(ts=ts), exp))
        ctx.count(f"corr.tprod={'ERR' if exp == 'ERR' else 'ok'}")


    # --- named operations: dict_sym, from_string_prod, Rotation(n, axis), Mirror(axis)  (model executed in Q(sqrt 3))
    from wannierberri.symmetry import point_symmetry as psm
    names = list(psm.dict_sym)
    named_cases = [[nm] for nm in names]
    for _ in range(ctx.n(12, 60)):
        named_cases.append([rng.choice(names) for _ in range(rng.randint(2, 4))])
    for lst in named_cases:
        string = "*".join(lst)
        with ctx.attempt("from_string_prod", dict(string=string)):
            g = psm.from_string_prod(string)
            lines.append(f"named {string}")
            checks.append(("named", dict(string=string), ("qs3", np.array(g.R, dtype=float), bool(g.Inv), bool(g.TR))))
            ctx.count(f"corr.named.factors={len(lst)}")
    lines.append("named C4z*Foo")
    checks.append(("named", dict(string="C4z*Foo"), "ERR" if _raises(lambda: psm.from_string_prod("C4z*Foo")) else "no-error"))
    axes = [[1, 0, 0], [0, 1, 0], [0, 0, 1], [-1, 0, 0], [0, 0, -1], [1, 1, 1], [-1, 1, 1], [1, -1, -1], [-1, -1, -1]]
    for _ in range(ctx.n(14, 60)):
        n = rng.choice([1, 2, 3, 4, 6])
        ax = rng.choice(axes)
        scale_ax = rng.choice([1, 1, 2, 0.5, 3])            # the code normalises the axis
        with ctx.attempt("Rotation / Mirror", dict(n=n, axis=ax, scale=scale_ax)):
            R = psm.Rotation(n, [a * scale_ax for a in ax])
            lines.append(f"rot {n} {ints(ax)}")
            checks.append(("rot", dict(n=n, axis=ax), ("qs3", np.array(R.R, dtype=float), bool(R.Inv), bool(R.TR))))
            M = psm.Mirror([a * scale_ax for a in ax])
            lines.append(f"mir {ints(ax)}")
            checks.append(("mir", dict(axis=ax), ("qs3", np.array(M.R, dtype=float), bool(M.Inv), bool(M.TR))))
    # --- Result.transform delegates to transform_tensor with the result's own rank and transforms
    from wannierberri.result import EnergyResult, KBandResult, ResultDict
    for _ in range(ctx.n(8, 40)):
        fam = Family(rng, rng.choice(["cubic", "tetra", "ortho"]))
        names_g, trs_g, gens_g, cl_g = random_generators(rng, fam, 16)
        with ctx.attempt("Result.transform", dict(generators=names_g, TR=trs_g)):
            grp = build_code_group(fam, names_g, trs_g)
            elems = code_elements(fam, grp)
            i = rng.randrange(len(elems))
            sym = grp.symmetries[i]
            rank = rng.choice([0, 1, 2, 3])
            tT, tI = rand_transform_pair(rng, rank, valid=True)
            tT["conj"] = tI["conj"] = False
            cT, cI = code_transform(tT), code_transform(tI)
            kind = rng.choice(["EnergyResult", "KBandResult", "ResultDict"])
            x = rand_tensor(rng, rank, (2,)).real.copy()
            with quiet():
                if kind == "KBandResult":
                    res = KBandResult(x.reshape((1, 2) + (3,) * rank), transformTR=cT, transformInv=cI)
                    out = res.transform(sym)
                    slices = out.data.reshape((2,) + (3,) * rank)
                else:
                    res = EnergyResult(np.array([0.0, 1.0]), x.copy(), transformTR=cT, transformInv=cI, rank=rank)
                    out = ResultDict({"q": res}).transform(sym).results["q"] if kind == "ResultDict" else res.transform(sym)
                    slices = out.data
            if out.rank != rank or out.transformTR != cT or out.transformInv != cI:
                ctx.fail(f"{kind}.transform changes the rank / declared transforms of the result",
                         dict(kind=kind, rank=rank, tTR=tT, tInv=tI))
            we = wire_elems([elems[i]])
            for isl in range(2):
                lines.append(f"tt {we[0]} {we[1]} {we[2]} {rank} {wire_transform(tT)} {wire_transform(tI)} {wire_tensor(x[isl])}")
                checks.append(("result.transform", dict(kind=kind, generators=names_g, element=i, rank=rank, tTR=tT, tInv=tI,
                                                        slice=isl),
                               ("tensor", fam, rank, np.asarray(slices[isl]).reshape((3,) * rank), True)))
            ctx.count(f"corr.result_transform.{kind}")

    out = ctx.lean(lines)
    for line, o, (kind, case, exp) in zip(lines, out, checks):
        ctx.case(signature=line, nontrivial=kind in ("gen", "table", "star", "tt", "sym", "mul", "checkbasis", "symgrid", "named",
                                                    "rot", "mir", "result.transform"))
        if isinstance(exp, str):
            if o != exp:
                ctx.mismatch(f"{kind}: model={o[:200]} code={exp[:200]}", dict(case, line=line[:2000]))
        elif exp[0] == "qs3":
            _, Rc, invc, trc = exp
            if o in ("ERR", "bad-op"):
                ctx.mismatch(f"{kind}: model gives {o}, the code built an operation", dict(case, line=line))
            else:
                pa, pb, pi, pt = o.split(" ")
                Rm = (np.array([float(Fr(t)) for t in pa.split(",")]) + SQ3 * np.array([float(Fr(t)) for t in pb.split(",")])).reshape(3, 3)
                if np.abs(Rm - Rc).max() > 1e-12 or (pi == "1") != invc or (pt == "1") != trc:
                    ctx.mismatch(f"{kind}: model R={Rm.round(6).tolist()} Inv={pi} TR={pt}; code R={Rc.round(6).tolist()} "
                                 f"Inv={invc} TR={trc}", dict(case, line=line))
        elif exp[0] == "elems":
            if o == "ERR":
                ctx.mismatch("model could not generate a finite group", dict(case, line=line))
            else:
                mel = parse_elems(o)
                cel = exp[1]
                if mel != cel:
                    ctx.mismatch(f"PointGroup.symmetries: model has {len(mel)} elements, code {len(cel)}; first difference at "
                                 f"{next((i for i, (a, b) in enumerate(zip(mel, cel)) if a != b), min(len(mel), len(cel)))}",
                                 dict(case, line=line))
        elif exp[0] == "vecs":
            mv = [] if o == "_" else [[Fr(t) for t in v.split(",")] for v in o.split(";")]
            cv = np.asarray(exp[1], dtype=float).reshape(-1, 3)
            ok = len(mv) == len(cv) and all(abs(float(a) - b) < 1e-9 for m, c in zip(mv, cv) for a, b in zip(m, c))
            if not ok:
                ctx.mismatch(f"{kind}: model has {len(mv)} vectors, code {len(cv)}: model={o[:200]} code={cv.tolist()}",
                             dict(case, line=line[:2000]))
        elif exp[0] == "tensor":
            _, fam, rank, got, exact = exp
            mt = parse_tensor(o, rank)
            if fam is not None:
                mt = fam.tensor_to_cart(mt, rank)
            scale = max(1.0, float(np.abs(mt).max()))
            tol = 0.0 if exact else 1e-10 * scale
            if got.shape != mt.shape or np.abs(np.asarray(got, dtype=complex) - mt).max() > tol:
                ctx.mismatch(f"{kind}: model and code differ by "
                             f"{np.abs(np.asarray(got, dtype=complex).reshape(mt.shape) - mt).max() if got.size == mt.size else 'shape'}"
                             f" (tolerance {tol})", dict(case, line=line[:2000]))
    if lines:
        ctx.sample(dict(protocol_line=lines[0][:300], model=out[0][:300]))
        ctx.sample(dict(protocol_line=lines[-1][:300], model=out[-1][:300]))


# ------------------------------------------------------------------------------------------------
# property-level oracle on the real code (independent of the Lean model)

def _is_identity(s):
    return (not s.TR) and (not s.Inv) and np.abs(np.array(s.R, dtype=float) - np.eye(3)).max() < 1e-9


def oracle_group(ctx, fam, names, trs, gens, cl, grp, case):
    """closure, identity, inverses, no duplicates, order = exact closure, lattice invariance"""
    syms = grp.symmetries
    n = len(syms)
    exp = {(tuple(flat(m if not inv else _neg(m))), tr) for m, inv, tr in code_elements(fam, grp)}
    if len(exp) != n:
        ctx.fail(f"PointGroup.symmetries contains duplicates: {n} entries, {len(exp)} distinct", case)
    if cl is not None and exp != cl:
        ctx.fail(f"PointGroup.symmetries is not the group generated by the generators: {n} elements, expected {len(cl)}",
                 case)
    if not any(_is_identity(s) for s in syms):
        ctx.fail("identity missing from PointGroup.symmetries", case)
    pairs = [(i, j) for i in range(n) for j in range(n)]
    if len(pairs) > 600:
        pairs = [pairs[t] for t in sorted(ctx.rng.sample(range(len(pairs)), 600))]
    for i, j in pairs:
        p = syms[i] * syms[j]
        cnt = sum(1 for t in syms if t == p)
        if cnt != 1:
            ctx.fail(f"product of elements {i},{j} occurs {cnt} times in the group (closure violated)", dict(case, i=i, j=j))
            break
    for i, s in enumerate(syms):
        if not any(_is_identity(s * t) and _is_identity(t * s) for t in syms):
            ctx.fail(f"element {i} has no inverse in the group", dict(case, i=i))
            break
    # associativity on the objects
    for _ in range(10):
        a, b, c = (syms[ctx.rng.randrange(n)] for _ in range(3))
        if not ((a * b) * c == a * (b * c)):
            ctx.fail("__mul__ is not associative on group elements", case)
    # lattice invariance (own computation, independent of check_basis_symmetry)
    for i, s in enumerate(syms):
        N = fam.A @ np.array(s.R, dtype=float).T @ np.linalg.inv(fam.A)
        if np.abs(N - np.round(N)).max() > 1e-8:
            ctx.fail(f"element {i} does not map the real lattice to itself", dict(case, i=i))
            break
    if not grp.check_basis_symmetry(fam.A) or not grp.check_basis_symmetry(grp.recip_lattice):
        ctx.fail("check_basis_symmetry rejects the group's own lattice", case)
    # other bases: accepted exactly when every operation maps the lattice they span to itself (exact reference)
    rng = ctx.rng
    elems = code_elements(fam, grp)
    for _ in range(4):
        while True:
            bm = [[Fr(rng.randint(-3, 3), rng.choice([1, 1, 2])) for _ in range(3)] for _ in range(3)]
            if fdet(bm) != 0:
                break
        style = rng.choice(["random", "sublattice", "sheared"])
        if style == "sublattice":
            bm = fmul([[Fr(rng.choice([1, 2, 3])) if i == j else Fr(0) for j in range(3)] for i in range(3)], fam.basis_real)
        elif style == "sheared":
            sh = [[Fr(1), Fr(rng.choice([0, 1, -1, 2])), Fr(0)], [Fr(0), Fr(1), Fr(rng.choice([0, 1]))], [Fr(0), Fr(0), Fr(1)]]
            bm = fmul(sh, fam.basis_real)       # another basis of the same lattice: must be accepted
        binv = finv(bm)
        expect = True
        for (m, inv, tr) in elems:
            N = fmul(fmul(bm, ftrans(fmat(m))), binv)
            if any(x.denominator != 1 for r in N for x in r):
                expect = False
                break
        basis_code = np.array([[float(x) for x in r] for r in bm]) @ fam.T.T
        got = bool(grp.check_basis_symmetry(basis_code))
        ctx.count(f"oracle.check_basis.{style}.expected={expect}")
        if got != expect:
            ctx.fail(f"check_basis_symmetry returns {got} for a basis whose lattice is "
                     f"{'invariant' if expect else 'NOT invariant'} under the group ({style})",
                     dict(case, basis=[[str(x) for x in r] for r in bm]))
        nk = [rng.choice([1, 2, 3, 4, 6]) for _ in range(3)]
        if rng.random() < 0.6:
            nk[1] = nk[0]
        # symmetric_grid(nk): the basis recip/nk must be invariant
        bg = [[fam.basis_recip[i][j] / nk[i] for j in range(3)] for i in range(3)]
        bginv = finv(bg)
        expect_g = all(x.denominator == 1 for (m, inv, tr) in elems
                       for r in fmul(fmul(bg, ftrans(fmat(m))), bginv) for x in r)
        got_g = bool(grp.symmetric_grid(nk))
        ctx.count(f"oracle.symmetric_grid.expected={expect_g}")
        if got_g != expect_g:
            ctx.fail(f"symmetric_grid({nk}) returns {got_g}, but the grid is "
                     f"{'mapped' if expect_g else 'NOT mapped'} to itself by the group", dict(case, nk=nk))


def oracle_tensors(ctx, fam, grp, case, scale):
    """action law, identity, inverse, symmetrisation = idempotent projection on invariant tensors"""
    rng = ctx.rng
    syms = grp.symmetries
    n = len(syms)
    for rank in range(0, 5):
        reps = 1 if rank == 4 else 2
        for _ in range(reps):
            tT, tI = rand_transform_pair(rng, rank, valid=True)
            cT, cI = code_transform(tT, rng.random() < 0.3), code_transform(tI)
            lead = rng.choice([(), (1,), (2,), (2, 3)]) if rank > 0 else rng.choice([(), (), (1,), (3,), (2, 2)])
            x = rand_tensor(rng, rank, lead) * (1.0 + rng.random())
            i, j = rng.randrange(n), rng.randrange(n)
            g, h = syms[i], syms[j]
            tcase = dict(case, rank=rank, lead=lead, tTR=tT, tInv=tI, i=i, j=j)
            tol = 1e-11 * (1 + float(np.abs(x).max())) * 3 ** rank
            with ctx.attempt("transform_tensor action law", tcase):
                a = g.transform_tensor(h.transform_tensor(x, rank, cT, cI), rank, cT, cI)
                b = (g * h).transform_tensor(x, rank, cT, cI)
                ref = ref_transform_tensor(np.array(h.R, dtype=float), h.Inv, h.TR, x, rank, tT, tI)
                ref = ref_transform_tensor(np.array(g.R, dtype=float), g.Inv, g.TR, ref, rank, tT, tI)
                ctx.case(signature=("act", case["generators"], tuple(case["TR"]), i, j, rank, str(tT), str(tI), lead),
                         nontrivial=rank >= 1 and not _is_identity(g) and not _is_identity(h))
                ctx.count(f"oracle.action.rank={rank}")
                if a.shape != x.shape or np.abs(a - b).max() > tol:
                    ctx.fail(f"transform_tensor(g) o transform_tensor(h) != transform_tensor(g*h): rank {rank}, "
                             f"difference {np.abs(a - b).max():.3e}", tcase)
                if np.abs(a - ref).max() > tol:
                    ctx.fail(f"transform_tensor differs from the definition (rotate every axis, then TR/Inv transforms): "
                             f"rank {rank}, difference {np.abs(a - ref).max():.3e}", tcase)
                ident = [s for s in syms if _is_identity(s)]
                if ident and np.abs(ident[0].transform_tensor(x, rank, cT, cI) - x).max() > tol:
                    ctx.fail("the identity does not act trivially", tcase)
                inv = [t for t in syms if _is_identity(g * t)]
                if inv and np.abs(inv[0].transform_tensor(g.transform_tensor(x, rank, cT, cI), rank, cT, cI) - x).max() > tol:
                    ctx.fail("transform_tensor(g^-1) does not undo transform_tensor(g)", tcase)
                if x.dtype != a.dtype and not np.iscomplexobj(a):
                    ctx.fail("transform_tensor changed a complex tensor into a real one", tcase)
            with ctx.attempt("symmetrize_tensor", tcase):
                P = grp.symmetrize_tensor(x, cT, cI, rank=rank)
                PP = grp.symmetrize_tensor(P, cT, cI, rank=rank)
                refP = sum(ref_transform_tensor(np.array(s.R, dtype=float), s.Inv, s.TR, x, rank, tT, tI) for s in syms) / n
                ctx.case(signature=("sym", case["generators"], tuple(case["TR"]), rank, str(tT), str(tI), lead),
                         nontrivial=n >= 4 and rank >= 1)
                ctx.count(f"oracle.symmetrize.rank={rank}")
                if np.abs(P - refP).max() > tol:
                    ctx.fail(f"symmetrize_tensor is not the group average: difference {np.abs(P - refP).max():.3e}", tcase)
                if np.abs(PP - P).max() > tol:
                    ctx.fail(f"symmetrize_tensor is not idempotent: |PPx - Px| = {np.abs(PP - P).max():.3e}", tcase)
                worst = max(np.abs(s.transform_tensor(P, rank, cT, cI) - P).max() for s in syms)
                if worst > tol:
                    ctx.fail(f"symmetrised tensor is not invariant under an element: {worst:.3e}", tcase)
                # a tensor that every element leaves invariant is reproduced (here: P itself plus invariants built from it)
                y = P * (2.0 - 0.5j) if not (tT["conj"] or tI["conj"]) else P * 2.0
                if np.abs(grp.symmetrize_tensor(y, cT, cI, rank=rank) - y).max() > 4 * tol:
                    ctx.fail("an invariant tensor is changed by symmetrize_tensor", tcase)
                # and a tensor reproduced by P is invariant; a non-invariant one is not reproduced
                moved = max(np.abs(s.transform_tensor(x, rank, cT, cI) - x).max() for s in syms)
                if moved > 1e-6 and np.abs(P - x).max() < 1e-9 * moved:
                    ctx.fail("a tensor that is not invariant is reproduced by symmetrize_tensor", tcase)


def oracle_star(ctx, fam, grp, case):
    """each distinct image (mod reciprocal lattice) exactly once, computed with exact rationals"""
    rng = ctx.rng
    syms = grp.symmetries
    Bm = fam.basis_recip
    Binv = finv(Bm)
    for _ in range(3):
        k = kpoints(rng)
        kcase = dict(case, k=[str(x) for x in k])
        with ctx.attempt("star", kcase):
            st = np.asarray(grp.star(np.array([float(x) for x in k])), dtype=float).reshape(-1, 3)
            # exact images:  k -> (iTR*iInv) * k @ (B Q^T B^-1),  Q = proper matrix in model coordinates
            classes = []
            for (m, inv, tr) in code_elements(fam, grp):
                N = fmul(fmul(Bm, ftrans(fmat(m))), Binv)
                sgn = (-1 if inv else 1) * (-1 if tr else 1)
                img = [sgn * sum(k[i] * N[i][j] for i in range(3)) for j in range(3)]
                classes.append(tuple(x - math.floor(x) for x in img))
            distinct = []
            for c in classes:
                if c not in distinct:
                    distinct.append(c)
            got = []
            for row in st:
                fr = [Fr(float(v)).limit_denominator(96) for v in row]
                if max(abs(float(f) - v) for f, v in zip(fr, row)) > 1e-9:
                    ctx.fail(f"star returns a point that is not an image of k: {row.tolist()}", kcase)
                got.append(tuple(x - math.floor(x) for x in fr))
            ctx.case(signature=("star", case["generators"], tuple(case["TR"]), tuple(k)), nontrivial=len(distinct) < len(syms))
            ctx.count("oracle.star.special_k" if len(distinct) < len(syms) else "oracle.star.general_k")
            if len(set(got)) != len(got):
                ctx.fail(f"star lists an image twice (modulo the reciprocal lattice): {len(got)} rows, "
                         f"{len(set(got))} distinct", kcase)
            if set(got) != set(distinct):
                ctx.fail(f"star does not list every distinct image exactly once: {len(got)} rows, "
                         f"{len(distinct)} distinct images, missing {len(set(distinct) - set(got))}, "
                         f"foreign {len(set(got) - set(distinct))}", kcase)
            elif got != distinct:
                ctx.fail("star does not keep the first occurrence of every image (order differs)", kcase)


def oracle_results(ctx, fam, grp, case):
    """glue around transform_tensor: EnergyResult / KBandResult / ResultDict .transform and PointGroup.symmetrize"""
    from wannierberri.result import EnergyResult, KBandResult, ResultDict
    rng = ctx.rng
    rank = rng.choice([0, 1, 2, 3])
    tT, tI = rand_transform_pair(rng, rank, valid=True)
    tT["conj"] = tI["conj"] = False
    cT, cI = code_transform(tT), code_transform(tI)
    nE = 3
    xE = rand_tensor(rng, rank, (nE,)).real.copy() * 1.5
    xK = rand_tensor(rng, rank, (2, 4)).real.copy()
    rcase = dict(case, rank=rank, tTR=tT, tInv=tI)
    with ctx.attempt("Result.transform / PointGroup.symmetrize", rcase):
        with quiet():
            er = EnergyResult(np.linspace(0, 1, nE), xE, transformTR=cT, transformInv=cI, rank=rank)
            kr = KBandResult(xK, transformTR=cT, transformInv=cI)
            rd = ResultDict({"e": er})
            S = grp.symmetrize(rd).results["e"]
            SS = grp.symmetrize(ResultDict({"e": S})).results["e"]
            ref = grp.symmetrize_tensor(xE, cT, cI, rank=rank)
            tol = 1e-11 * (1 + np.abs(xE).max()) * 3 ** rank
            ctx.case(signature=("res", case["generators"], tuple(case["TR"]), rank, str(tT), str(tI)), nontrivial=rank >= 1)
            if np.abs(S.data - ref).max() > tol:
                ctx.fail("PointGroup.symmetrize(ResultDict) differs from symmetrize_tensor of the data", rcase)
            if np.abs(SS.data - S.data).max() > tol:
                ctx.fail("PointGroup.symmetrize(result) is not idempotent", rcase)
            if S.rank != rank or S.transformTR != cT or S.transformInv != cI:
                ctx.fail("symmetrize loses rank / transforms of an EnergyResult", rcase)
            s = grp.symmetries[rng.randrange(len(grp.symmetries))]
            kt = kr.transform(s)
            refk = s.transform_tensor(xK, rank, cT, cI)
            if kt.rank != rank or np.abs(kt.data - refk).max() > tol:
                ctx.fail("KBandResult.transform differs from transform_tensor of the data", rcase)


def oracle_special(ctx, scale):
    """input classes that used to fail (repaired in /repo): repeated generators, rank-0 tensors as 0-d arrays"""
    from wannierberri.symmetry.point_symmetry import (PointGroup, PointSymmetry, transform_odd, transform_ident,
                                                      from_string_prod)
    rng = ctx.rng
    pools = [(["C4z"], 4), (["C4z", "Mx"], 8), (["C3z", "C2x", "Inversion"], 12), (["C6z", "Mz*TimeReversal"], 12),
             (["C2z", "TimeReversal"], 4), (["C4z", "C4x"], 24)]
    for it in range(ctx.n(6, 20) * scale):
        gens, order = pools[it % len(pools)]
        style = ["twice", "thrice", "uniform", "uniform-shuffled"][it % 4]
        if style == "twice":
            lst = gens + [gens[0]]
        elif style == "thrice":
            lst = [gens[-1]] + gens + [gens[-1], gens[0]]
        else:
            # every element of the group listed m times, as a non-primitive space group lists its rotations
            with quiet():
                full = PointGroup(gens).symmetries
            m = rng.choice([2, 3, 4])
            lst = [PointSymmetry(np.array(s.R) * s.iInv, TR=s.TR) for _ in range(m) for s in full]
            if style == "uniform-shuffled":
                rng.shuffle(lst)
        case = dict(generators=[g if isinstance(g, str) else "obj" for g in lst][:12], style=style, expected_order=order)
        with ctx.attempt("PointGroup with repeated generators", case):
            with quiet():
                g = PointGroup(list(lst))
            ctx.case(signature=("dup", tuple(gens), style, it), nontrivial=True)
            ctx.count(f"oracle.repeated_generators.{style}")
            if g.size != order:
                ctx.fail(f"PointGroup with repeated generators ({style}) has size {g.size}, expected {order}", case)
                continue
            rank = rng.choice([1, 2, 3])
            x = rand_tensor(rng, rank)
            P = g.symmetrize_tensor(x, transform_odd, transform_ident)
            PP = g.symmetrize_tensor(P, transform_odd, transform_ident)
            ref = sum(ref_transform_tensor(np.array(s.R, dtype=float), s.Inv, s.TR, x, rank,
                                           dict(factor=-1, conj=False, axes=None), dict(factor=1, conj=False, axes=None))
                      for s in g.symmetries) / order
            tol = 1e-11 * (1 + np.abs(x).max()) * 3 ** rank
            if np.abs(PP - P).max() > tol or np.abs(P - ref).max() > tol:
                ctx.fail(f"symmetrize_tensor of a group given with repeated generators ({style}) is not the group "
                         f"average / not idempotent: |PPx-Px| = {np.abs(PP - P).max():.3g}", case)
    # rank 0 given as a 0-d array, groups with TR and with improper operations
    for gens, tT, tI, expect in [(["C2z", "TimeReversal"], transform_odd, transform_ident, 0.0),
                                 (["C2z", "TimeReversal"], transform_ident, transform_odd, 5.0),
                                 (["C4z", "Mx"], transform_ident, transform_odd, 0.0),
                                 (["C4z", "Mx*TimeReversal"], transform_odd, transform_odd, 5.0),
                                 (["C3z", "Inversion"], transform_odd, transform_ident, 5.0)]:
        case = dict(generators=gens, rank=0, data="np.array(5.0)", tTR=str(tT), tInv=str(tI))
        with ctx.attempt("rank-0 tensor as a 0-d array", case):
            with quiet():
                g = PointGroup(gens)
            ctx.case(signature=("0d", tuple(gens), str(tT), str(tI)), nontrivial=True)
            P = g.symmetrize_tensor(np.array(5.0), tT, tI)
            if np.shape(P) != () or abs(complex(P) - expect) > 1e-12:
                ctx.fail(f"symmetrize_tensor of the scalar 5.0 gives {P}, expected {expect}", case)
            s = g.symmetries[-1]
            y = s.transform_tensor(np.array(2.0 + 1.0j), 0, tT, tI)
            f = (tT.factor if s.TR else 1) * (tI.factor if s.Inv else 1)
            if np.shape(y) != () or abs(complex(y) - f * (2.0 + 1.0j)) > 1e-12:
                ctx.fail(f"transform_tensor of a 0-d scalar gives {y}, expected {f * (2.0 + 1.0j)}", case)
        with ctx.attempt("gen_symmetric_tensor / get_symmetric_components for rank 0", case):
            a = g.gen_symmetric_tensor(0, True, False)
            b = g.gen_symmetric_tensor(0, False, False)
            comps = g.get_symmetric_components(0, False, True)
            has_tr = any(s.TR for s in g.symmetries)
            if np.shape(a) != () or np.shape(b) != () or not isinstance(comps, list):
                ctx.fail("gen_symmetric_tensor / get_symmetric_components give a wrong type for rank 0", case)
            elif (has_tr and abs(float(a)) > 1e-14) or not (0 < float(b) < 1):
                ctx.fail(f"gen_symmetric_tensor(0, ..) gives a TR-odd scalar {a} (group with TR: {has_tr}) / even scalar {b}", case)


def oracle(ctx, scale):
    rng = ctx.rng
    fam_names = ["cubic", "tetra", "ortho", "hex", "rhombo", "mono"]
    ngroups = ctx.n(12, 60) * scale
    for ig in range(ngroups):
        famname = fam_names[ig % 6] if ig < 6 else rng.choice(fam_names)
        max_order = 96 if ig % 7 == 3 else 48
        fam, famname, names, trs, gens, cl = pick_generators(rng, ig, famname, max_order,
                                                             ctx.n(5, 6) if not ctx.searching else 0)
        case = dict(family=famname, lattice=fam.name, generators=names, TR=[bool(t) for t in trs])
        grp = None
        with ctx.attempt("PointGroup construction from valid generators and a compatible lattice", case):
            grp = build_code_group(fam, names, trs)
        if grp is None:
            continue
        n = len(grp.symmetries)
        ctx.case(signature=("grp", famname, fam.name, tuple(names), tuple(trs)), nontrivial=n >= 4)
        ctx.count(f"oracle.family={famname}")
        ctx.count(f"oracle.order={n}")
        with ctx.attempt("group laws", case):
            oracle_group(ctx, fam, names, trs, gens, cl, grp, case)
        oracle_tensors(ctx, fam, grp, case, scale)
        oracle_star(ctx, fam, grp, case)
        oracle_results(ctx, fam, grp, case)
    oracle_named(ctx, scale)
    oracle_incompatible(ctx)
    oracle_special(ctx, scale)


def oracle_named(ctx, scale):
    """the public constructors: names, products of names, Rotation / Mirror about arbitrary axes"""
    from wannierberri.symmetry.point_symmetry import PointGroup, Rotation, Mirror, TimeReversal, Inversion
    rng = ctx.rng
    named = ["C2x", "C2y", "C2z", "C3z", "C4x", "C4y", "C4z", "C6z", "Mx", "My", "Mz", "Inversion", "TimeReversal"]
    expected_orders = {("C4z", "C4x"): 24, ("C4z", "C4x", "Inversion"): 48, ("C6z", "C2x", "Inversion"): 24,
                       ("C3z", "Mx"): 6, ("C4z", "Mx*TimeReversal"): 8, ("C6z", "Mz", "TimeReversal"): 24,
                       ("C2z*TimeReversal",): 2, ("C4z*TimeReversal",): 4, ("C3z", "C2x", "Inversion*TimeReversal"): 12}
    for gens, order in expected_orders.items():
        case = dict(generators=list(gens))
        with ctx.attempt("PointGroup from names", case):
            with quiet():
                g = PointGroup(list(gens))
            ctx.case(signature=("named", gens), nontrivial=True)
            if g.size != order:
                ctx.fail(f"PointGroup({list(gens)}) has {g.size} elements, expected {order}", case)
    for _ in range(ctx.n(4, 20) * scale):
        # dihedral groups about a random axis: C_n(axis) and a perpendicular C2 or a mirror containing the axis
        n = rng.choice([2, 3, 4, 6])
        ax = np.array([rng.uniform(-1, 1) for _ in range(3)])
        if np.linalg.norm(ax) < 0.3:
            continue
        perp = np.cross(ax, [rng.uniform(-1, 1) for _ in range(3)])
        if np.linalg.norm(perp) < 0.1:
            continue
        kind = rng.choice(["Cn", "Dn", "Cnv", "Cnh", "Dn+T"])
        gens = [Rotation(n, ax)]
        order = n
        if kind in ("Dn", "Dn+T"):
            gens.append(Rotation(2, perp))
            order = 2 * n
        if kind == "Cnv":
            gens.append(Mirror(perp))
            order = 2 * n
        if kind == "Cnh":
            gens.append(Mirror(ax))
            order = 2 * n
        if kind == "Dn+T":
            gens.append(TimeReversal)
            order *= 2
        case = dict(kind=kind, n=n, axis=ax.tolist(), perp=perp.tolist())
        with ctx.attempt("PointGroup from Rotation/Mirror about general axes", case):
            with quiet():
                g = PointGroup(gens)
            ctx.case(signature=("axes", kind, n, tuple(np.round(ax, 6))), nontrivial=True)
            ctx.count(f"oracle.general_axis.{kind}")
            if g.size != order:
                ctx.fail(f"{kind} group about a general axis has {g.size} elements, expected {order}", case)
                continue
            syms = g.symmetries
            for a in syms:
                for b in syms:
                    if sum(1 for t in syms if t == a * b) != 1:
                        ctx.fail("closure violated for a group about a general axis", case)
                        break
            rank = rng.choice([1, 2, 3])
            tT, tI = rand_transform_pair(rng, rank, valid=True)
            cT, cI = code_transform(tT), code_transform(tI)
            x = rand_tensor(rng, rank)
            P = g.symmetrize_tensor(x, cT, cI)
            tol = 1e-11 * (1 + np.abs(x).max()) * 3 ** rank
            if np.abs(g.symmetrize_tensor(P, cT, cI) - P).max() > tol:
                ctx.fail("symmetrize_tensor not idempotent for a group about a general axis", case)
            if max(np.abs(s.transform_tensor(P, rank, cT, cI) - P).max() for s in syms) > tol:
                ctx.fail("symmetrised tensor not invariant for a group about a general axis", case)


def oracle_incompatible(ctx):
    """a lattice that the group does not leave invariant must be rejected; a compatible one accepted"""
    from wannierberri.symmetry.point_symmetry import PointGroup
    bad = [(["C4z"], np.diag([1.0, 1.3, 1.7])), (["C3z"], np.eye(3)), (["C4x"], np.diag([1.0, 1.0, 1.4])),
           (["C6z"], np.array([[1.0, 0, 0], [0.5, 0.9, 0], [0, 0, 1.2]]))]
    for gens, lat in bad:
        case = dict(generators=gens, real_lattice=lat)
        ctx.case(signature=("bad", tuple(gens), lat.tobytes()), nontrivial=True)
        try:
            with quiet():
                PointGroup(gens, real_lattice=lat)
            ctx.fail("PointGroup accepts a lattice that its operations do not leave invariant", case)
        except AssertionError:
            pass
        except Exception as e:  # noqa
            ctx.fail(f"PointGroup with an incompatible lattice raised {type(e).__name__} instead of rejecting it", case)


def replay(ctx, case):
    oracle(ctx, 1)
