"""C28 - Fermi-sea and Fermi-surface formulations agree."""
import inspect
import itertools
import os

import numpy as np

from ..common import quiet, VERIF
from . import c08 as _c08

PID = "C28"
CLAIM = dict(
    design="3/C28",
    technique="Lean 4 proof of the integration-by-parts identity on the periodic BZ in the code's weight convention + "
              "an index/sign calculus whose calculator table (Formula, fder, sign of constant_factor, output-axis "
              "permutation, -2 E_F sub-calculator) is REGENERATED from the live calculator classes by probing and "
              "re-checked by `decide +kernel` on every run + finite-difference correspondence of the derivative-index "
              "convention + property oracle: the paired calculators run on smooth tight-binding and k.p models",
    text="Theorems: for every periodic differentiable integrand, int (d_d Y) w_n = int Y v_d w_{n+1} with w_n = (-1)^n f^(n) "
         "(what fder = n integrates against), and its corollaries for Ohmic, Berry dipole / NLAHC, spin and orbital GME "
         "(with the -2 E_F Berry-dipole term) and nonlinear Drude in exactly the index order of the calculators, plus the "
         "fder = 2 form; every run extracts the calculator table from the live classes and proves that each documented "
         "Fermi-sea entry is the integration-by-parts image of its Fermi-surface partner (derivative index appended last, "
         "same output axes including swapaxes(1,2), same sign, same sub-calculator coefficient).  _partial: agreement of "
         "the DISCRETISED integrals is convergence, not algebra - checked on the real code only (oracle, 3 % of the "
         "tensor norm on FD-smoothed 12^3-24^3 grids; a sign or axis error is an O(1) discrepancy).",
    note="Trusted: Lean kernel + Mathlib; the harness (probing of the calculators, model generators, tolerances); numpy/FFT. "
         "The formula-level content of each Formula class (which band quantity, which own indices) is a hand table, tied "
         "to the code by the finite-difference correspondence (DerX[..., d] = d_d X) and by the oracle.",
)
TRUSTED = [
    "modelled: for the paired static calculators the Formula class, fder, sign(constant_factor), the permutation of the "
    "cartesian axes applied in __call__ and the '- 2 E_F * sub-calculator' term; formula content as (band quantity, own "
    "indices, derivative indices appended last)",
    "regenerated every run by probing the live classes: the calculator is called on a random Data_K and compared with "
    "StaticCalculator.__call__ of the same object (axis permutation, sub-calculator coefficient)",
    "assumed in the theorem (named hypotheses): Leibniz rule, int_BZ d_d(periodic) = 0, chain rule d_d g(E) = g'(E) v_d",
    "checked, not proved: convergence of the k-sum and of the finite-difference in E_F (oracle only); that DerOmega, DerSpin, "
    "DerMorb, InvMass, Der3E are the k-derivatives of Omega, Spin, Morb_Hpm, velocity, InvMass with the derivative index "
    "LAST (finite-difference correspondence on the real code)",
    "Hall_classic sea/surface and NLDrude_Fermider2 are compared by the oracle only (their relation needs the "
    "antisymmetrisation / full symmetry of the tensors, which the index calculus does not express)",
]
RULE = ("pairs X_FermiSea / X_FermiSurf of calculators.static run on low-symmetry two-band tight-binding models (randomised "
        "Chiral / Haldane-type with random Hermitian perturbation and random spin matrices) and on a two-band k.p model, "
        "Fermi-Dirac smoother of width >= 3 dE, grids 12^3 (quick) to 24^3; non-trivial = tensor norm above 1e-8 of its "
        "natural scale and, for rank-2 tensors, not symmetric (so that an axis swap is visible); distinct = distinct "
        "(pair, model parameters, grid)")

LEAN_FORMULAS = set("Identity InvMass VelVel DerOmega VelOmega DerSpin VelSpin DerMorb VelHplus Der3E MassVel VelVelVel "
                    "Omega Spin Morb_Hpm MassMass VelMassVel".split())
EXTRA_PAIRS = [("NLDrude_FermiSea", "NLDrude_Fermider2")]


# ---------------------------------------------------------------------------------------------
# extraction of the calculator table from the live classes

def probe_instance(c, name, s, k, ef, notes, depth=0):
    """one calculator INSTANCE: compare its result with StaticCalculator.__call__ of the same object"""
    from wannierberri.calculators import static
    with quiet():
        full = np.array(c(_c08.dataK(s, k)).data)
        base = np.array(static.StaticCalculator.__call__(c, _c08.dataK(s, k)).data)
    subs = [(an, av) for an, av in vars(c).items() if isinstance(av, static.StaticCalculator)]
    row = dict(name=name, formula=c.Formula.__name__, fder=int(c.fder), factor=float(c.constant_factor),
               neg=bool(c.constant_factor < 0), perm=None, sub=None, subrow=None, coef=0, rank=base.ndim - 1)
    subdata = None
    if len(subs) == 1 and depth == 0:
        with quiet():
            subdata = np.array(subs[0][1](_c08.dataK(s, k)).data)
        row["sub"] = type(subs[0][1]).__name__
        row["subrow"] = probe_instance(subs[0][1], row["sub"], s, k, ef, notes, depth + 1)
    elif len(subs) > 0:
        notes.append(f"{name}: unsupported sub-calculator structure")
        return row
    r = base.ndim - 1
    scale = max(np.abs(full).max(), np.abs(base).max(), 1e-300)
    if full.shape == base.shape:
        for p in itertools.permutations(range(r)):
            res = full - base.transpose((0,) + tuple(1 + i for i in p))
            if subdata is None or subdata.shape != full.shape:
                if np.abs(res).max() < 1e-9 * scale:
                    row["perm"] = list(p)
                    break
            else:
                x = ef.reshape((-1,) + (1,) * r) * subdata
                coef = float((res * x).sum() / (x * x).sum())
                if abs(coef - round(coef)) < 1e-6 and np.abs(res - round(coef) * x).max() < 1e-9 * max(scale, np.abs(x).max()):
                    row["perm"] = list(p)
                    row["coef"] = int(round(coef))
                    break
    if np.abs(base).max() < 1e-12 * max(1.0, abs(row["factor"])):
        notes.append(f"{name}: probe value vanishes")
    return row


def probe_calculators(rs):
    """for every static calculator: Formula, fder, sign, axis permutation, sub-calculator and its coefficient"""
    from wannierberri.calculators import static
    with quiet():
        s = _c08.build_model(rs, "none", 3)
        k = _c08.good_k(rs, s)
        E = _c08.dataK(s, k).E_K[0]
    ef = np.linspace(E.min() - 0.31, E.max() + 0.37, 12)
    table, notes = {}, []
    for name, cls in inspect.getmembers(static, inspect.isclass):
        if not (issubclass(cls, static.StaticCalculator) and cls is not static.StaticCalculator
                and cls.__module__ == static.__name__) or name == "_DOS":
            continue
        try:
            with quiet():
                c = cls(Efermi=ef)
            table[name] = probe_instance(c, name, s, k, ef, notes)
        except Exception as e:  # noqa
            notes.append(f"cannot probe {name}: {type(e).__name__}: {str(e)[:100]}")
    return table, notes


def documented_pairs(table):
    """pairs X_FermiSea / X_FermiSurf (the naming the documentation uses for the two forms of the same tensor)"""
    pairs = []
    for name in sorted(table):
        if name.endswith("_FermiSea") and name[:-len("Sea")] + "Surf" in table:
            pairs.append((name, name[:-len("Sea")] + "Surf"))
    return pairs


def calc_lean(row):
    return f"⟨.{row['formula']}, {row['fder']}, {'true' if row['neg'] else 'false'}, [{', '.join(map(str, row['perm']))}]⟩"


def pair_rows(table):
    rows, oracle_only, problems = [], [], []
    for a, b in documented_pairs(table):
        ra, rb = table[a], table[b]
        expressible = all(r["perm"] is not None and r["formula"] in LEAN_FORMULAS for r in (ra, rb))
        subs = []
        for r in (ra, rb):
            if r["sub"] is not None:
                rs_ = r["subrow"]
                if rs_ is None or rs_["perm"] is None or rs_["formula"] not in LEAN_FORMULAS or rs_["sub"] is not None:
                    expressible = False
                subs.append(rs_)
            else:
                subs.append(None)
        if not expressible:
            oracle_only.append((a, b))
            continue
        if abs(abs(ra["factor"]) - abs(rb["factor"])) > 1e-12 * abs(ra["factor"]):
            problems.append(f"|constant_factor| of {a} ({ra['factor']}) and {b} ({rb['factor']}) differ")
        for x, y in ((subs[0], subs[1]),):
            if (x is None) != (y is None):
                problems.append(f"{a}/{b}: only one of the two has a sub-calculator")
            elif x is not None and abs(abs(x["factor"]) - abs(y["factor"])) > 1e-12 * abs(x["factor"]):
                problems.append(f"|constant_factor| of the sub-calculators of {a}/{b} differ")
        o = lambda r: "none" if r is None else f"some {calc_lean(r)}"
        rows.append((a, b, f"  ⟨{calc_lean(ra)}, {calc_lean(rb)}, {o(subs[0])}, {o(subs[1])}, {ra['coef']}, {rb['coef']}⟩"))
    return rows, oracle_only, problems


def tables(ctx):
    rs = np.random.RandomState(ctx.rng.getrandbits(31))
    table, notes = probe_calculators(rs)
    ctx._c28 = dict(table=table)
    for n in notes:
        ctx.note(n)
    rows, oracle_only, problems = pair_rows(table)
    ctx._c28["pairs"] = [(a, b) for a, b, _ in rows]
    ctx._c28["oracle_only"] = oracle_only
    for p in problems:
        ctx.mismatch("calculator table: " + p, dict(problem=p))
    for a, b in oracle_only:
        ctx.note(f"pair {a}/{b} is outside the index calculus (post-processing is not an axis permutation): oracle only")
    named = {"Ohmic", "BerryDipole", "NLAHC", "GME_spin", "GME_orb", "NLDrude"}
    got = {a[:-len("_FermiSea")] for a, b, _ in rows}
    for m in sorted(named - got):
        ctx.mismatch(f"documented pair {m}_FermiSea/{m}_FermiSurf could not be extracted from the live calculators",
                     dict(pair=m, sea=table.get(m + "_FermiSea"), surf=table.get(m + "_FermiSurf")))
    ctx.count("table.calculators_probed", len(table))
    ctx.count("table.pairs", len(rows))
    src = ("import WB.Model.C28\nopen WB.C28\n\n"
           "/-- the documented sea/surface pairs as extracted from the live calculator classes -/\n"
           "def pairs : List Pair := [\n" + ",\n".join(r for _, _, r in rows) + "\n]\n\n"
           "theorem pair_table_ok : pairTableOK pairs = true := by decide +kernel\n#print axioms pair_table_ok\n")
    ok, out = ctx.lean_file("C28Table.lean", src)
    ctx.sample(dict(generated_rows=[r for _, _, r in rows][:3]))
    if ok and "pair_table_ok" in out and "sorryAx" not in out:
        ctx.note(f"regenerated calculator table: {len(rows)} documented pairs re-proved by decide +kernel: "
                 + ", ".join(f"{a}/{b}" for a, b, _ in rows))
        return
    # localise
    lines = []
    for a, b, r in rows:
        ra, rb = table[a], table[b]
        lines.append(f"pair {ra['formula']} {ra['fder']} {int(ra['neg'])} {','.join(map(str, ra['perm'])) or '_'} "
                     f"{rb['formula']} {rb['fder']} {int(rb['neg'])} {','.join(map(str, rb['perm'])) or '_'}")
    res = ctx.lean(lines)
    bad = [(a, b) for (a, b, _), o in zip(rows, res) if o != "1"]
    for a, b in bad:
        ctx.mismatch(f"{a} is not the integration-by-parts image of {b} (formula / fder / sign / axis order): "
                     f"sea={table[a]} surf={table[b]}", dict(sea=table[a], surf=table[b]))
    if not bad:
        ctx.mismatch("generated calculator table is rejected (sub-calculator or coefficient): " + out[-500:], dict(out=out[-1500:]))


# ---------------------------------------------------------------------------------------------
# correspondence: ranks, and the derivative-index convention on the real code

def corr(ctx):
    from wannierberri.formula import covariant as frml
    st = ctx._c28
    table = st["table"]
    rs = np.random.RandomState(ctx.rng.getrandbits(31))
    # ranks of the formula table
    rows = [r for r in table.values() if r["formula"] in LEAN_FORMULAS]
    lines = [f"rank {r['formula']}" for r in rows]
    out = ctx.lean(lines)
    for r, l, o in zip(rows, lines, out):
        ctx.case(signature=l, nontrivial=True)
        if o != str(r["rank"]) and table[r["name"]]["perm"] is not None:
            ctx.mismatch(f"rank of {r['formula']}: model {o}, live formula.ndim {r['rank']}", dict(row=r))
    ctx.sample(dict(protocol_line=lines[0], model=out[0], code=rows[0]["rank"]))
    # DerX[..., d] = d_d X on the real code (central differences in cartesian k)
    checks = [("Omega", lambda d: frml.Omega(d), "DerOmega", lambda d: frml.DerOmega(d)),
              ("Spin", lambda d: frml.Spin(d), "DerSpin", lambda d: frml.DerSpin(d)),
              ("Morb_Hpm", lambda d: frml.Morb_Hpm(d, sign=+1), "DerMorb", lambda d: frml.DerMorb(d, sign=+1)),
              ("Velocity", lambda d: frml.Velocity(d), "InvMass", lambda d: frml.InvMass(d)),
              ("InvMass", lambda d: frml.InvMass(d), "Der3E", lambda d: frml.Der3E(d))]
    h = 2e-4
    for it in range(ctx.n(1, 3)):
        with quiet():
            s = _c08.build_model(rs, "none", 3)
            k = _c08.good_k(rs, s, mingap=0.08)
        recip = s.recip_lattice
        nb = int(rs.randint(1, 3))
        inn, outb = np.arange(0, nb), np.arange(nb, 3)
        for bname, bmk, dname, dmk in checks:
            case = dict(base=bname, derivative=dname, k=k.tolist(), bands=[0, nb])
            try:
                with quiet():
                    der = np.array(dmk(_c08.dataK(s, k)).trace(0, inn, outb))
                    fd = []
                    for d in range(3):
                        dk = h * np.eye(3)[d] @ np.linalg.inv(recip)
                        vp = np.array(bmk(_c08.dataK(s, k + dk)).trace(0, inn, outb))
                        vm = np.array(bmk(_c08.dataK(s, k - dk)).trace(0, inn, outb))
                        fd.append((vp - vm) / (2 * h))
                fd = np.stack(fd, axis=-1)          # derivative index LAST, as the model says
            except Exception as e:  # noqa
                ctx.mismatch(f"{dname}: finite-difference correspondence raised {type(e).__name__}: {str(e)[:150]}", case)
                continue
            scale = max(np.abs(der).max(), np.abs(fd).max(), 1e-12)
            dev = np.abs(der - fd).max() / scale
            ctx.case(signature=("fd", dname, tuple(k), nb), nontrivial=True)
            ctx.count("corr.fd." + dname)
            if dev > 2e-5:
                first = np.moveaxis(fd, -1, 0)
                alt = np.abs(der - first).max() / scale if first.shape == der.shape else np.inf
                ctx.mismatch(f"{dname}[..., d] is not d_d {bname} (relative deviation {dev:.2e}; with the derivative index "
                             f"FIRST the deviation is {alt:.2e})", dict(case, formula_value=der, finite_difference=fd))


# ---------------------------------------------------------------------------------------------
# oracle: the paired calculators on real runs

def tb_model(rs, kind, mingap=2.0):
    """low-symmetry two-band tight-binding models from the repository's own model zoo + random perturbation;
       models whose direct gap on an 8^3 grid is below `mingap` are redrawn (a small gap makes the Berry curvature
       sharp on the scale of the integration grid: the property is about CONVERGED grids)"""
    from wannierberri.grid import Grid
    from wannierberri.data_K import Data_K_R
    for attempt in range(20):
        s, par = _tb_model(rs, kind)
        with quiet():
            E = Data_K_R(s, grid=Grid(s, NK=8, NKFFT=8), dK=np.zeros(3)).E_K
        gap = float((E[:, 1] - E[:, 0]).min())
        if gap >= mingap:
            break
    par.update(min_gap_8x8x8=gap, redraws=attempt)
    return s, par


def _tb_model(rs, kind):
    wb = _c08._wb()
    from wannierberri import models
    from wannierberri.system import System_R
    par = {}
    with quiet():
        if kind == "chiral":
            # a wide gap keeps the Berry curvature smooth on the scale of a 12^3 grid
            par = dict(delta=float(rs.uniform(2.6, 3.3)), hop1=1.0, hop2=float(rs.uniform(0.2, 0.33)),
                       phi=float(rs.uniform(0.2, 0.45)), hopz_left=float(rs.uniform(0.15, 0.3)),
                       hopz_right=float(rs.uniform(-0.1, 0.1)), hopz_vert=float(rs.uniform(-0.1, 0.1)))
            s = System_R.from_pythtb(models.Chiral(**par))
        else:
            par = dict(delta=float(rs.uniform(1.8, 2.6)), hop1=-1.0, hop2=float(rs.uniform(0.1, 0.25)),
                       phi=float(rs.uniform(0.6, 1.6)))
            s = System_R.from_pythtb(models.Haldane_ptb(**par))
    seed = int(rs.randint(0, 2 ** 31 - 1))
    r2 = np.random.RandomState(seed)
    nR, nw = s.rvec.nRvec, s.num_wann
    # random Hermitian perturbation on the existing R-vectors: removes the C3 axis (tensors become non-symmetric)
    H = s.get_R_mat("Ham")
    P = 0.12 * (r2.normal(size=H.shape) + 1j * r2.normal(size=H.shape))
    P = 0.5 * (P + s.rvec.conj_XX_R(P))
    s.set_R_mat("Ham", H + P, reset=True)
    # a spin operator: random Hermitian on-site matrix plus weak nearest-cell terms
    S = 0.15 * (r2.normal(size=(nR, nw, nw, 3)) + 1j * r2.normal(size=(nR, nw, nw, 3)))
    S[s.rvec.iR0] = r2.normal(size=(nw, nw, 3)) + 1j * r2.normal(size=(nw, nw, 3))
    S = 0.5 * (S + s.rvec.conj_XX_R(S))
    s.set_R_mat("SS", S)
    par.update(kind=kind, perturbation_seed=seed)
    return s, par


def kp_model(rs):
    """two-band k.p model with a closed Fermi surface well inside the box (so that nothing crosses the box boundary)"""
    wb = _c08._wb()
    A = float(rs.uniform(9.0, 11.0))
    lam = rs.uniform(0.6, 1.2, 3) * rs.choice([-1, 1], 3)
    tilt = rs.uniform(-0.5, 0.5, 3)
    wv = rs.uniform(-0.9, 0.9, (3, 3))        # quadratic coupling to sigma: breaks the remaining symmetries
    sig = np.array([[[0, 1], [1, 0]], [[0, -1j], [1j, 0]], [[1, 0], [0, -1]]], dtype=complex)
    eye = np.eye(2, dtype=complex)

    mass = np.array([0.3, -0.2, 1.0]) * float(rs.uniform(1.3, 1.8))    # gap: no Weyl node, smooth Berry curvature

    def dvec(k):
        k = np.asarray(k, dtype=float)
        return mass + lam * k + wv @ (k * k)

    def ham(k):
        k = np.asarray(k, dtype=float)
        return (A * k @ k + tilt @ k) * eye + np.einsum("s,sij->ij", dvec(k), sig)

    def dham(k):
        k = np.asarray(k, dtype=float)
        out = np.zeros((2, 2, 3), dtype=complex)
        for a in range(3):
            dd = np.zeros(3)
            dd[a] += lam[a]
            dd += wv[:, a] * 2 * k[a]
            out[:, :, a] = (2 * A * k[a] + tilt[a]) * eye + np.einsum("s,sij->ij", dd, sig)
        return out

    def d2ham(k):
        out = np.zeros((2, 2, 3, 3), dtype=complex)
        for a in range(3):
            out[:, :, a, a] = 2 * A * eye + np.einsum("s,sij->ij", 2 * wv[:, a], sig)
        return out

    def d3ham(k):
        return np.zeros((2, 2, 3, 3, 3), dtype=complex)

    with quiet():
        s = wb.system.SystemKP(Ham=ham, derHam=dham, der2Ham=d2ham, der3Ham=d3ham, kmax=1.0)
    # lowest band energy on the faces of the box: Fermi levels must stay well below it (no occupied state may touch
    # the boundary of the box, otherwise the integration by parts has boundary terms)
    g = np.linspace(-1, 1, 9)
    eb = min(np.linalg.eigvalsh(ham(np.roll(np.array([sg, x, y]), ax)))[0]
             for ax in range(3) for sg in (-1.0, 1.0) for x in g for y in g)
    return s, dict(E_boundary_min=float(eb), kind="kp", A=A, lam=lam.tolist(), tilt=tilt.tolist(), w=wv.tolist(), mass=mass.tolist())


def run_pairs(ctx, s, par, names, ef, kT, NK, NKFFT):
    wb = _c08._wb()
    from wannierberri.calculators import static
    from wannierberri.smoother import FermiDiracSmoother
    sm = FermiDiracSmoother(ef, T_Kelvin=kT / 8.617333262e-5, maxdE=5)
    calcs = {n: getattr(static, n)(Efermi=ef, smoother=sm) for n in names}
    with quiet():
        grid = wb.Grid(s, NK=NK, NKFFT=NKFFT)
        res = wb.run(s, grid=grid, calculators=calcs, parallel=False, adpt_num_iter=0, use_irred_kpt=False,
                     symmetrize=False, print_progress_step_time=1e9, fout_name=os.path.join(ctx.work, "c28run"))
    sel = slice(sm.NE1 + 1, len(ef) - sm.NE1 - 1)     # the smoother renormalises near the ends of the E_F range
    return {n: np.array(res.results[n].dataSmooth)[sel] for n in names}, ef[sel]


def compare(ctx, A, B, a, b, case, tol):
    nA, nB = np.linalg.norm(A), np.linalg.norm(B)
    n = max(nA, nB)
    if A.shape != B.shape or A.shape[0] < 8 or not n > 0:
        ctx.fail(f"{a} / {b}: nothing to compare (shapes {A.shape} / {B.shape}, norms {nA:.2e} / {nB:.2e}): the oracle "
                 f"would be vacuous", case)
        return 0.0
    dev = np.linalg.norm(A - B) / n if n > 0 else 0.0
    asym = 0.0
    if A.ndim == 3:
        asym = np.linalg.norm(A - A.swapaxes(1, 2)) / max(nA, 1e-300)
    ctx.case(signature=(a, b, repr(sorted(case["model"].items())), case["NK"]), nontrivial=(n > 0 and (A.ndim != 3 or asym > 0.05)))
    ctx.count(f"oracle.{a.replace('_FermiSea', '')}.{case['model']['kind']}")
    if A.ndim == 3:
        ctx.count("oracle.rank2.asymmetric" if asym > 0.05 else "oracle.rank2.nearly_symmetric")
    if dev > tol:
        hint = ""
        if np.linalg.norm(A + B) / n < tol:
            hint = " (the two results are opposite in sign)"
        elif A.ndim == 3 and np.linalg.norm(A - B.swapaxes(1, 2)) / n < tol:
            hint = " (they agree after swapping the two cartesian axes)"
        ctx.fail(f"{a} and {b} disagree: |sea - surf| / max(|sea|,|surf|) = {dev:.3f} > {tol} on a {case['NK']}^3 grid, "
                 f"kT = {case['kT']:.3f} eV ({case['kT_over_dE']:.1f} dE){hint}", dict(case, norm_sea=nA, norm_surf=nB,
                                                                              sea=A[len(A) // 2], surf=B[len(B) // 2]))
    return dev


def oracle(ctx, scale):
    st = getattr(ctx, "_c28", None)
    rs = np.random.RandomState(ctx.rng.getrandbits(31))
    if st is None:
        table, _ = probe_calculators(rs)
        st = ctx._c28 = dict(table=table)
    table = st["table"]
    pairs = documented_pairs(table)
    thorough = ctx.tier == "thorough" or scale > 1
    extra = [p for p in EXTRA_PAIRS if all(x in table for x in p)] if thorough else []
    if not thorough:
        pairs = [p for p in pairs if not p[0].startswith("Hall_classic")]      # rank-4 formula: thorough tier only
    devs = []
    # (model kind, NK).  Tolerances are convergence tolerances.  The code smooths T = 0 data that were binned on the E_F
    # grid, so the effective occupation is a staircase of step dE: with dE = kT/6 the k-sum of the parity-odd,
    # cancellation-prone nonlinear Drude tensor is 9-17 % off at 12^3, with dE = kT/24 it is 2 % (rank-2 pairs <= 2 %).
    # Hence dE = kT/24 here.  A wrong sign gives 2.0, a wrong axis order O(1).
    plan = [("chiral", ctx.n(12, 16), 0), ("kp", ctx.n(12, 16), 0)]
    if thorough:
        plan += [("haldane", 16, 0), ("chiral", 24 if scale == 1 else 16, 0), ("kp", 20, 0)]

    def tol_for(pair, NK):
        if "Fermider2" in pair[1]:        # f'' needs a finer k-grid than f and f' (oracle-only extra pair)
            return 0.15 if NK < 20 else 0.10
        if "NLDrude" in pair[0]:
            return 0.08 if NK < 20 else 0.05
        return 0.04 if NK < 20 else 0.03

    for kind, NK, ktfac in plan:
        if kind == "kp":
            s, par = kp_model(rs)
            ef = np.arange(-3.5, 7.0, 0.025)
            kT = 0.6 if NK < 16 else 0.45
            # the nonlinear Drude tensor of this model (der3Ham = 0) is a small remainder of large cancelling terms: it is
            # compared on the tight-binding models only
            names_pairs = [p for p in pairs if not p[0].startswith(("GME_spin", "Hall_classic", "NLDrude"))]
        else:
            s, par = tb_model(rs, kind)
            ef = np.arange(-12.0, 13.0, 0.05) if kind == "chiral" else np.arange(-10.0, 10.0, 0.05)
            kT = 1.2 if kind == "chiral" else 1.0
            names_pairs = list(pairs)
        allp = names_pairs + (extra if kind != "kp" else [])
        names = sorted({n for p in allp for n in p})
        case = dict(model=par, NK=NK, kT=kT, kT_over_dE=kT / (ef[1] - ef[0]), Efermi=[float(ef[0]), float(ef[-1]), len(ef)])
        try:
            data, efsel = run_pairs(ctx, s, par, names, ef, kT, NK, NK if kind == "kp" else (NK // 2 if NK % 2 == 0 else NK))
        except Exception as e:  # noqa
            ctx.fail(f"run() of the paired calculators raised {type(e).__name__}: {str(e)[:300]}", case)
            continue
        if kind == "kp":
            # only Fermi levels for which the occupied region stays inside the box: f(E_boundary) < exp(-8)
            keep = efsel < par["E_boundary_min"] - 8 * kT
            data = {n: v[keep] for n, v in data.items()}
        for a, b in allp:
            devs.append((a, NK, compare(ctx, data[a], data[b], a, b, case, tol_for((a, b), NK))))
    if devs:
        r2 = [d for d in devs if "NLDrude" not in d[0]]
        r3 = [d for d in devs if "NLDrude" in d[0]]
        for lab, dd in (("rank-2 pairs", r2), ("nonlinear Drude", r3)):
            if dd:
                w = max(dd, key=lambda x: x[2])
                ctx.note(f"largest sea/surface discrepancy, {lab}: {w[2]:.4f} ({w[0]}, {w[1]}^3); a sign error gives 2.0, "
                         f"an axis error O(1)")
    ctx.sample(dict(pairs=pairs + extra, plan=plan))


def replay(ctx, case):
    """re-run the check with the recorded seed and tier: the models (parameters are also listed in the recorded case)
       are functions of the seed"""
    _c08.reseed(ctx, case)
    tables(ctx)
    corr(ctx)
    oracle(ctx, 1)


if __name__ == "__main__":
    # maintenance: regenerate lean/WB/Lemmas/C28Snapshot.lean from the current /repo
    rs0 = np.random.RandomState(1)
    table0, notes0 = probe_calculators(rs0)
    rows0, oo, problems0 = pair_rows(table0)
    with open(os.path.join(VERIF, "lean", "WB", "Lemmas", "C28Snapshot.lean"), "w") as f:
        f.write("/-\n  C28 — snapshot of the calculator table extracted from /repo (generated by `python -m harness.props.c28`;\n"
                "  the live table is regenerated and re-checked on every run).\n  pairs: "
                + ", ".join(f"{a}/{b}" for a, b, _ in rows0) + "\n-/\nimport WB.Model.C28\nnamespace WB.C28\n\n"
                "def snapshotPairs : List Pair := [\n" + ",\n".join(r for _, _, r in rows0) + "\n]\n\nend WB.C28\n")
    for n, r in sorted(table0.items()):
        print(n, r)
    print("notes", notes0, "oracle-only", oo, "problems", problems0)
