"""C28 - Fermi-sea and Fermi-surface formulations agree."""
import inspect
import itertools
import os

import numpy as np

from ..common import quiet, VERIF, InfraError as common_infra
from . import c08 as _c08

PID = "C28"
CLAIM = dict(
    design="3/C28",
    technique="Lean 4 proof of the integration-by-parts identity on the periodic BZ in the code's weight convention + "
              "an index/sign calculus whose calculator table (Formula, fder, sign of constant_factor, output-axis "
              "permutation, -2 E_F sub-calculator) is REGENERATED from the live calculator classes by probing and "
              "re-checked by `decide +kernel` on every run + finite-difference correspondence of the derivative-index "
              "convention + property oracle: the paired calculators run on smooth tight-binding and k.p models",
    text="Theorems: for every periodic differentiable integrand, int (d_d Y) w_n = int Y v_d w_{n+1} with w_n = (-1)^n f^(n) "
         "(what fder = n integrates against), and its corollaries for Ohmic, Berry dipole / NLAHC, spin and orbital GME "
         "(with the -2 E_F Berry-dipole term) and nonlinear Drude in exactly the index order of the calculators, plus the "
         "fder = 2 form; every run extracts the calculator table from the live classes and proves that each documented "
         "Fermi-sea entry is the integration-by-parts image of its Fermi-surface partner (derivative index appended last, "
         "same output axes including swapaxes(1,2), same sign, same sub-calculator coefficient).  _partial: agreement of "
         "the DISCRETISED integrals is convergence, not algebra - checked on the real code only (oracle, 3-4 % of the "
         "tensor norm (nonlinear Drude 5-8 %) on FD-smoothed 12^3-24^3 grids with a convergence-based verdict: a pair above "
         "the tolerance is re-run on refined grids and fails only if the discrepancy does not converge away; a sign or axis "
         "error is an O(1) discrepancy that stays).",
    note="Trusted: Lean kernel + Mathlib; the harness (probing of the calculators, model generators, tolerances); numpy/FFT. "
         "The formula-level content of each Formula class (which band quantity, which own indices) is a hand table, tied "
         "to the code by the finite-difference correspondence (DerX[..., d] = d_d X) and by the oracle.",
)
TRUSTED = [
    "modelled: for the paired static calculators the Formula class, fder, sign(constant_factor), the permutation of the "
    "cartesian axes applied in __call__ and the '- 2 E_F * sub-calculator' term; formula content as (band quantity, own "
    "indices, derivative indices appended last)",
    "regenerated every run by probing the live classes: the calculator is called on a random Data_K and compared with "
    "StaticCalculator.__call__ of the same object (axis permutation, sub-calculator coefficient)",
    "assumed in the theorem (named hypotheses): Leibniz rule, int_BZ d_d(periodic) = 0, chain rule d_d g(E) = g'(E) v_d",
    "checked, not proved: convergence of the k-sum and of the finite-difference in E_F (oracle only); that DerOmega, DerSpin, "
    "DerMorb, InvMass, Der3E are the k-derivatives of Omega, Spin, Morb_Hpm, velocity, InvMass with the derivative index "
    "LAST (finite-difference correspondence on the real code)",
    "Hall_classic sea/surface and NLDrude_Fermider2 are compared by the oracle only (their relation needs the "
    "antisymmetrisation / full symmetry of the tensors, which the index calculus does not express); the f'' form is "
    "compared on tight-binding models only (a box-confined k.p band would need > 40^3 points)",
    "call histories (oracle): the same calculator objects are reused across models with different numbers of bands "
    "(1-5), cell volumes, FFT grids and k-shifts, small->large and large->small (thorough: also a random order, tetra on "
    "and off); every result must equal a fresh object's to 1e-10",
    "SystemKP wrappers: checked on the real code that Ham/derHam/der2Ham/der3Ham (analytic or finite-difference, every "
    "subset of supplied derivatives, cartesian and reduced k convention) fold k into the box and equal the exact "
    "derivative of the polynomial model at the folded point",
]
RULE = ("pairs X_FermiSea / X_FermiSurf of calculators.static run on low-symmetry two-band tight-binding models (randomised "
        "Chiral / Haldane-type with random Hermitian perturbation and random spin matrices, gap >= 2 eV) and on non-parabolic "
        "(quartic + cubic + mixed terms) one- and two-band k.p models with analytic derHam/der2Ham/der3Ham supplied in every "
        "subset and both k conventions, Fermi levels keeping the occupied region inside the box, "
        "Fermi-Dirac smoother of width 24 dE, grids 12^3 (quick) to 28^3 (refinement); non-trivial = tensor norm above 1e-8 of its "
        "natural scale and, for rank-2 tensors, not symmetric (so that an axis swap is visible); distinct = distinct "
        "(pair, model parameters, grid)")

LEAN_FORMULAS = set("Identity InvMass VelVel DerOmega VelOmega DerSpin VelSpin DerMorb VelHplus Der3E MassVel VelVelVel "
                    "Omega Spin Morb_Hpm MassMass VelMassVel".split())
EXTRA_PAIRS = [("NLDrude_FermiSea", "NLDrude_Fermider2")]


# ---------------------------------------------------------------------------------------------
# extraction of the calculator table from the live classes

def probe_instance(c, name, s, k, ef, notes, depth=0):
    """one calculator INSTANCE: compare its result with StaticCalculator.__call__ of the same object"""
    from wannierberri.calculators import static
    with quiet():
        full = np.array(c(_c08.dataK(s, k)).data)
        base = np.array(static.StaticCalculator.__call__(c, _c08.dataK(s, k)).data)
    subs = [(an, av) for an, av in vars(c).items() if isinstance(av, static.StaticCalculator)]
    row = dict(name=name, formula=c.Formula.__name__, fder=int(c.fder), factor=float(c.constant_factor),
               neg=bool(c.constant_factor < 0), perm=None, sub=None, subrow=None, coef=0, rank=base.ndim - 1)
    subdata = None
    if len(subs) == 1 and depth == 0:
        with quiet():
            subdata = np.array(subs[0][1](_c08.dataK(s, k)).data)
        row["sub"] = type(subs[0][1]).__name__
        row["subrow"] = probe_instance(subs[0][1], row["sub"], s, k, ef, notes, depth + 1)
    elif len(subs) > 0:
        notes.append(f"{name}: unsupported sub-calculator structure")
        return row
    r = base.ndim - 1
    scale = max(np.abs(full).max(), np.abs(base).max(), 1e-300)
    if full.shape == base.shape:
        for p in itertools.permutations(range(r)):
            res = full - base.transpose((0,) + tuple(1 + i for i in p))
            if subdata is None or subdata.shape != full.shape:
                if np.abs(res).max() < 1e-9 * scale:
                    row["perm"] = list(p)
                    break
            else:
                x = ef.reshape((-1,) + (1,) * r) * subdata
                coef = float((res * x).sum() / (x * x).sum())
                if abs(coef - round(coef)) < 1e-6 and np.abs(res - round(coef) * x).max() < 1e-9 * max(scale, np.abs(x).max()):
                    row["perm"] = list(p)
                    row["coef"] = int(round(coef))
                    break
    if np.abs(base).max() < 1e-12 * max(1.0, abs(row["factor"])):
        notes.append(f"{name}: probe value vanishes")
    return row


def probe_calculators(rs):
    """for every static calculator: Formula, fder, sign, axis permutation, sub-calculator and its coefficient"""
    from wannierberri.calculators import static
    with quiet():
        s = _c08.build_model(rs, "none", 3)
        k = _c08.good_k(rs, s)
        E = _c08.dataK(s, k).E_K[0]
    ef = np.linspace(E.min() - 0.31, E.max() + 0.37, 12)
    table, notes = {}, []
    for name, cls in inspect.getmembers(static, inspect.isclass):
        if not (issubclass(cls, static.StaticCalculator) and cls is not static.StaticCalculator
                and cls.__module__ == static.__name__) or name == "_DOS":
            continue
        try:
            with quiet():
                c = cls(Efermi=ef)
            table[name] = probe_instance(c, name, s, k, ef, notes)
        except Exception as e:  # noqa
            notes.append(f"cannot probe {name}: {type(e).__name__}: {str(e)[:100]}")
    return table, notes


def documented_pairs(table):
    """pairs X_FermiSea / X_FermiSurf (the naming the documentation uses for the two forms of the same tensor)"""
    pairs = []
    for name in sorted(table):
        if name.endswith("_FermiSea") and name[:-len("Sea")] + "Surf" in table:
            pairs.append((name, name[:-len("Sea")] + "Surf"))
    return pairs


def calc_lean(row):
    return f"⟨.{row['formula']}, {row['fder']}, {'true' if row['neg'] else 'false'}, [{', '.join(map(str, row['perm']))}]⟩"


def pair_rows(table):
    rows, oracle_only, problems = [], [], []
    for a, b in documented_pairs(table):
        ra, rb = table[a], table[b]
        expressible = all(r["perm"] is not None and r["formula"] in LEAN_FORMULAS for r in (ra, rb))
        subs = []
        for r in (ra, rb):
            if r["sub"] is not None:
                rs_ = r["subrow"]
                if rs_ is None or rs_["perm"] is None or rs_["formula"] not in LEAN_FORMULAS or rs_["sub"] is not None:
                    expressible = False
                subs.append(rs_)
            else:
                subs.append(None)
        if not expressible:
            oracle_only.append((a, b))
            continue
        if abs(abs(ra["factor"]) - abs(rb["factor"])) > 1e-12 * abs(ra["factor"]):
            problems.append(f"|constant_factor| of {a} ({ra['factor']}) and {b} ({rb['factor']}) differ")
        for x, y in ((subs[0], subs[1]),):
            if (x is None) != (y is None):
                problems.append(f"{a}/{b}: only one of the two has a sub-calculator")
            elif x is not None and abs(abs(x["factor"]) - abs(y["factor"])) > 1e-12 * abs(x["factor"]):
                problems.append(f"|constant_factor| of the sub-calculators of {a}/{b} differ")
        o = lambda r: "none" if r is None else f"some {calc_lean(r)}"
        rows.append((a, b, f"  ⟨{calc_lean(ra)}, {calc_lean(rb)}, {o(subs[0])}, {o(subs[1])}, {ra['coef']}, {rb['coef']}⟩"))
    return rows, oracle_only, problems


def tables(ctx):
    rs = np.random.RandomState(ctx.rng.getrandbits(31))
    table, notes = probe_calculators(rs)
    ctx._c28 = dict(table=table)
    for n in notes:
        ctx.note(n)
    rows, oracle_only, problems = pair_rows(table)
    ctx._c28["pairs"] = [(a, b) for a, b, _ in rows]
    ctx._c28["oracle_only"] = oracle_only
    for p in problems:
        ctx.mismatch("calculator table: " + p, dict(problem=p))
    for a, b in oracle_only:
        ctx.note(f"pair {a}/{b} is outside the index calculus (post-processing is not an axis permutation): oracle only")
    named = {"Ohmic", "BerryDipole", "NLAHC", "GME_spin", "GME_orb", "NLDrude"}
    got = {a[:-len("_FermiSea")] for a, b, _ in rows}
    for m in sorted(named - got):
        ctx.mismatch(f"documented pair {m}_FermiSea/{m}_FermiSurf could not be extracted from the live calculators",
                     dict(pair=m, sea=table.get(m + "_FermiSea"), surf=table.get(m + "_FermiSurf")))
    ctx.count("table.calculators_probed", len(table))
    ctx.count("table.pairs", len(rows))
    src = ("import WB.Model.C28\nopen WB.C28\n\n"
           "/-- the documented sea/surface pairs as extracted from the live calculator classes -/\n"
           "def pairs : List Pair := [\n" + ",\n".join(r for _, _, r in rows) + "\n]\n\n"
           "theorem pair_table_ok : pairTableOK pairs = true := by decide +kernel\n#print axioms pair_table_ok\n")
    ok, out = ctx.lean_file("C28Table.lean", src)
    ctx.sample(dict(generated_rows=[r for _, _, r in rows][:3]))
    if ok and "pair_table_ok" in out and "sorryAx" not in out:
        ctx.note(f"regenerated calculator table: {len(rows)} documented pairs re-proved by decide +kernel: "
                 + ", ".join(f"{a}/{b}" for a, b, _ in rows))
        return
    # localise
    lines = []
    for a, b, r in rows:
        ra, rb = table[a], table[b]
        lines.append(f"pair {ra['formula']} {ra['fder']} {int(ra['neg'])} {','.join(map(str, ra['perm'])) or '_'} "
                     f"{rb['formula']} {rb['fder']} {int(rb['neg'])} {','.join(map(str, rb['perm'])) or '_'}")
    res = ctx.lean(lines)
    bad = [(a, b) for (a, b, _), o in zip(rows, res) if o != "1"]
    for a, b in bad:
        ctx.mismatch(f"{a} is not the integration-by-parts image of {b} (formula / fder / sign / axis order): "
                     f"sea={table[a]} surf={table[b]}", dict(sea=table[a], surf=table[b]))
    if not bad:
        ctx.mismatch("generated calculator table is rejected (sub-calculator or coefficient): " + out[-500:], dict(out=out[-1500:]))


# ---------------------------------------------------------------------------------------------
# correspondence: ranks, and the derivative-index convention on the real code

def corr(ctx):
    from wannierberri.formula import covariant as frml
    st = ctx._c28
    table = st["table"]
    rs = np.random.RandomState(ctx.rng.getrandbits(31))
    # ranks of the formula table
    rows = [r for r in table.values() if r["formula"] in LEAN_FORMULAS]
    lines = [f"rank {r['formula']}" for r in rows]
    out = ctx.lean(lines)
    for r, l, o in zip(rows, lines, out):
        ctx.case(signature=l, nontrivial=True)
        if o != str(r["rank"]) and table[r["name"]]["perm"] is not None:
            ctx.mismatch(f"rank of {r['formula']}: model {o}, live formula.ndim {r['rank']}", dict(row=r))
    ctx.sample(dict(protocol_line=lines[0], model=out[0], code=rows[0]["rank"]))
    # DerX[..., d] = d_d X on the real code (central differences in cartesian k)
    checks = [("Omega", lambda d: frml.Omega(d), "DerOmega", lambda d: frml.DerOmega(d)),
              ("Spin", lambda d: frml.Spin(d), "DerSpin", lambda d: frml.DerSpin(d)),
              ("Morb_Hpm", lambda d: frml.Morb_Hpm(d, sign=+1), "DerMorb", lambda d: frml.DerMorb(d, sign=+1)),
              ("Velocity", lambda d: frml.Velocity(d), "InvMass", lambda d: frml.InvMass(d)),
              ("InvMass", lambda d: frml.InvMass(d), "Der3E", lambda d: frml.Der3E(d))]
    h = 2e-4
    for it in range(ctx.n(1, 3)):
        with quiet():
            s = _c08.build_model(rs, "none", 3)
            k = _c08.good_k(rs, s, mingap=0.08)
        recip = s.recip_lattice
        nb = int(rs.randint(1, 3))
        inn, outb = np.arange(0, nb), np.arange(nb, 3)
        for bname, bmk, dname, dmk in checks:
            case = dict(base=bname, derivative=dname, k=k.tolist(), bands=[0, nb])
            try:
                with quiet():
                    der = np.array(dmk(_c08.dataK(s, k)).trace(0, inn, outb))
                    fd = []
                    for d in range(3):
                        dk = h * np.eye(3)[d] @ np.linalg.inv(recip)
                        vp = np.array(bmk(_c08.dataK(s, k + dk)).trace(0, inn, outb))
                        vm = np.array(bmk(_c08.dataK(s, k - dk)).trace(0, inn, outb))
                        fd.append((vp - vm) / (2 * h))
                fd = np.stack(fd, axis=-1)          # derivative index LAST, as the model says
            except Exception as e:  # noqa
                ctx.mismatch(f"{dname}: finite-difference correspondence raised {type(e).__name__}: {str(e)[:150]}", case)
                continue
            scale = max(np.abs(der).max(), np.abs(fd).max(), 1e-12)
            dev = np.abs(der - fd).max() / scale
            ctx.case(signature=("fd", dname, tuple(k), nb), nontrivial=True)
            ctx.count("corr.fd." + dname)
            if dev > 2e-5:
                first = np.moveaxis(fd, -1, 0)
                alt = np.abs(der - first).max() / scale if first.shape == der.shape else np.inf
                ctx.mismatch(f"{dname}[..., d] is not d_d {bname} (relative deviation {dev:.2e}; with the derivative index "
                             f"FIRST the deviation is {alt:.2e})", dict(case, formula_value=der, finite_difference=fd))
    with quiet():
        kp_folding(ctx, rs)


def kp_folding(ctx, rs):
    """SystemKP: every wrapper (Ham, derHam, der2Ham, der3Ham; analytic or finite-difference) must fold the reduced
       k-vector into the box [-1/2, 1/2): value(k + G) = value(k) for integer G, and the analytic ones must equal the
       user function at the folded point - for every subset of supplied derivatives and both k conventions"""
    tol_depth = [1e-9, 1e-6, 1e-4, 2e-2]        # relative; depth = number of nested finite-difference levels
    cells = list(KP_CELLS)
    for isub, subset in enumerate(KP_SUBSETS):
        for icart, cart in enumerate((True, False)):
            # every (subset, convention) on a non-cubic cell; the kmax box additionally once per subset
            todo = [cells[1 + (2 * isub + icart) % 3]] + (["box"] if icart == 0 else [])
            if ctx.tier == "thorough":
                todo = cells
            for cell in todo:
                kp_folding_one(ctx, rs, subset, cart, cell, tol_depth)


def kp_folding_one(ctx, rs, subset, cart, cell, tol_depth):
    if True:
        if True:
            s, par, fun = kp_model(rs, nband=int(rs.choice([1, 2])), subset=subset, cartesian=cart, cell=cell)
            n_analytic = dict(none=0, d1=1, d1d2=2, d1d2d3=3)[subset]
            recip = s.recip_lattice
            for it in range(ctx.n(2, 6)):
                k = rs.uniform(-0.49, 0.49, 3)
                G = rs.randint(-2, 3, 3)
                if not G.any():
                    G[int(rs.randint(3))] = 1
                for order, name in enumerate(("Ham", "derHam", "der2Ham", "der3Ham")):
                    f = getattr(s, name)
                    depth = max(0, order - n_analytic)
                    case = dict(wrapper=name, subset=subset, cartesian=cart, k=k.tolist(), G=G.tolist(), model=par)
                    try:
                        v0, v1 = np.array(f(k)), np.array(f(k + G))
                    except Exception as e:  # noqa
                        ctx.mismatch(f"SystemKP.{name} raised {type(e).__name__}: {str(e)[:150]}", case)
                        continue
                    ref = np.array(fun[order](k @ recip))
                    scale = max(np.abs(ref).max(), 1e-12)
                    ctx.case(signature=("fold", name, subset, cart, tuple(k), tuple(G)), nontrivial=True)
                    ctx.count(f"corr.kp_fold.{name}.{'analytic' if depth == 0 else 'fd%d' % depth}")
                    ctx.count(f"corr.kp_fold.cell={cell}")
                    d_fold = np.abs(v1 - v0).max() / scale
                    d_ref = np.abs(v0 - ref).max() / scale
                    d_ref1 = np.abs(v1 - ref).max() / scale
                    if d_fold > tol_depth[depth] or d_ref > tol_depth[depth] or d_ref1 > tol_depth[depth]:
                        ctx.mismatch(f"SystemKP.{name} (subset '{subset}', {'cartesian' if cart else 'reduced'} k, cell '{cell}'): value at k+G "
                                     f"differs from the value at k by {d_fold:.2e}; vs the exact derivative at the folded k: "
                                     f"{d_ref:.2e} (k), {d_ref1:.2e} (k+G); tolerance {tol_depth[depth]:.0e}", case)


# ---------------------------------------------------------------------------------------------
# oracle: the paired calculators on real runs

def tb_model(rs, kind, mingap=2.0):
    """low-symmetry two-band tight-binding models from the repository's own model zoo + random perturbation;
       models whose direct gap on an 8^3 grid is below `mingap` are redrawn (a small gap makes the Berry curvature
       sharp on the scale of the integration grid: the property is about CONVERGED grids)"""
    from wannierberri.grid import Grid
    from wannierberri.data_K import Data_K_R
    for attempt in range(20):
        s, par = _tb_model(rs, kind)
        with quiet():
            E = Data_K_R(s, grid=Grid(s, NK=8, NKFFT=8), dK=np.zeros(3)).E_K
        gap = float((E[:, 1] - E[:, 0]).min())
        if gap >= mingap:
            break
    par.update(min_gap_8x8x8=gap, redraws=attempt)
    return s, par


def _tb_model(rs, kind):
    wb = _c08._wb()
    from wannierberri import models
    from wannierberri.system import System_R
    par = {}
    with quiet():
        if kind == "chiral":
            # a wide gap keeps the Berry curvature smooth on the scale of a 12^3 grid
            par = dict(delta=float(rs.uniform(2.6, 3.3)), hop1=1.0, hop2=float(rs.uniform(0.2, 0.33)),
                       phi=float(rs.uniform(0.2, 0.45)), hopz_left=float(rs.uniform(0.15, 0.3)),
                       hopz_right=float(rs.uniform(-0.1, 0.1)), hopz_vert=float(rs.uniform(-0.1, 0.1)))
            s = System_R.from_pythtb(models.Chiral(**par))
        else:
            par = dict(delta=float(rs.uniform(1.8, 2.6)), hop1=-1.0, hop2=float(rs.uniform(0.1, 0.25)),
                       phi=float(rs.uniform(0.6, 1.6)))
            s = System_R.from_pythtb(models.Haldane_ptb(**par))
    seed = int(rs.randint(0, 2 ** 31 - 1))
    r2 = np.random.RandomState(seed)
    nR, nw = s.rvec.nRvec, s.num_wann
    # random Hermitian perturbation on the existing R-vectors: removes the C3 axis (tensors become non-symmetric)
    H = s.get_R_mat("Ham")
    P = 0.12 * (r2.normal(size=H.shape) + 1j * r2.normal(size=H.shape))
    P = 0.5 * (P + s.rvec.conj_XX_R(P))
    s.set_R_mat("Ham", H + P, reset=True)
    # a spin operator: random Hermitian on-site matrix plus weak nearest-cell terms
    S = 0.15 * (r2.normal(size=(nR, nw, nw, 3)) + 1j * r2.normal(size=(nR, nw, nw, 3)))
    S[s.rvec.iR0] = r2.normal(size=(nw, nw, 3)) + 1j * r2.normal(size=(nw, nw, 3))
    S = 0.5 * (S + s.rvec.conj_XX_R(S))
    s.set_R_mat("SS", S)
    par.update(kind=kind, perturbation_seed=seed)
    return s, par


KP_SUBSETS = ("none", "d1", "d1d2", "d1d2d3")     # which analytic derivatives are handed to SystemKP


def kp_poly(rs, nband):
    """non-parabolic polynomial k.p Hamiltonian H(k) = sum_t M_t * k^alpha_t (k cartesian) with quartic confinement,
       cubic / mixed terms that break inversion and all mirror symmetries and, for two bands, a gapped d(k).sigma part.
       returns (terms, parameters); terms = list of (matrix, exponent triple)"""
    sig = [np.array(m, dtype=complex) for m in ([[0, 1], [1, 0]], [[0, -1j], [1j, 0]], [[1, 0], [0, -1]])]
    eye = np.eye(nband, dtype=complex)
    e = np.eye(3, dtype=int)
    A = float(rs.uniform(5.0, 7.0))
    B = float(rs.uniform(3.0, 5.0))
    tilt = rs.uniform(-0.6, 0.6, 3)
    cub = rs.uniform(-1.2, 1.2, 3)
    mix = rs.uniform(-0.8, 0.8, 3)
    terms = []
    for a in range(3):
        terms += [(A * eye, tuple(2 * e[a])), (B * eye, tuple(4 * e[a])), (tilt[a] * eye, tuple(e[a])),
                  (cub[a] * eye, tuple(3 * e[a])), (mix[a] * eye, tuple(e[a] + e[(a + 1) % 3]))]
    par = dict(A=A, B=B, tilt=tilt.tolist(), cubic=cub.tolist(), mixed=mix.tolist(), nband=nband)
    if nband == 2:
        mass = np.array([0.3, -0.2, 1.0]) * float(rs.uniform(1.3, 1.8))     # gap: no Weyl node
        lam = rs.uniform(0.6, 1.2, 3) * rs.choice([-1, 1], 3)
        wv = rs.uniform(-0.8, 0.8, (3, 3))
        q3 = rs.uniform(-0.6, 0.6, 3)
        for sI in range(3):
            terms += [(mass[sI] * sig[sI], (0, 0, 0)), (lam[sI] * sig[sI], tuple(e[sI])), (q3[sI] * sig[sI], tuple(3 * e[sI]))]
            terms += [(wv[sI, a] * sig[sI], tuple(2 * e[a])) for a in range(3)]
        par.update(mass=mass.tolist(), lam=lam.tolist(), w=wv.tolist(), q3=q3.tolist())
    return terms, par


def poly_derivative(terms, order):
    """analytic cartesian derivative of the polynomial of the given order: function k -> array (nb, nb, 3, ..)"""
    nb = terms[0][0].shape[0]
    contrib = []                      # (index tuple, matrix * combinatorial factor, remaining exponents)
    for M, al in terms:
        for idx in np.ndindex(*((3,) * order)):
            c, ex = 1.0, list(al)
            for a in idx:
                c *= ex[a]
                ex[a] -= 1
                if c == 0:
                    break
            if c != 0:
                contrib.append(((slice(None), slice(None)) + idx, M * c, tuple(ex)))

    def f(k):
        k = np.asarray(k, dtype=float)
        pw = [[1.0, k[a], k[a] ** 2, k[a] ** 3, k[a] ** 4] for a in range(3)]
        out = np.zeros((nb, nb) + (3,) * order, dtype=complex)
        for sl, M, ex in contrib:
            out[sl] += M * (pw[0][ex[0]] * pw[1][ex[1]] * pw[2][ex[2]])
        return out
    return f


KP_CELLS = ("box", "hex", "mono", "tri")
KP_REJECTED = [0]       # cells rejected by SystemKP / find_shells (registered C31 finding), counted


def draw_cell(rs, cell):
    """(constructor keyword, matrix, reciprocal lattice) of a k.p cell whose inscribed sphere has radius about 1"""
    from wannierberri.utility import real_recip_lattice
    if cell == "box":
        return "kmax", 1.0, np.eye(3) * 2.0
    if cell == "hex":            # given through real_lattice; reciprocal matrix not symmetric
        a, c = float(rs.uniform(2.9, 3.3)), float(rs.uniform(2.6, 3.0))
        real = np.array([[a, 0, 0], [-a / 2, a * np.sqrt(3) / 2, 0], [0, 0, c]])
        return "real_lattice", real, real_recip_lattice(real_lattice=real)[1]
    if cell == "mono":           # oblique in the xy plane
        rec = np.array([[rs.uniform(2.0, 2.3), 0, 0], [rs.uniform(0.4, 0.8) * rs.choice([-1, 1]), rs.uniform(2.0, 2.3), 0],
                        [0, 0, rs.uniform(2.0, 2.3)]])
        return "recip_lattice", rec, rec
    while True:                  # triclinic, generic non-symmetric matrix
        rec = np.diag(rs.uniform(2.1, 2.4, 3)) + rs.uniform(-0.4, 0.4, (3, 3)) * (1 - np.eye(3))
        if np.linalg.det(rec) > 6 and np.abs(rec - rec.T).max() > 0.1:
            return "recip_lattice", rec, rec


def kp_model(rs, nband=2, subset="d1d2d3", cartesian=True, cell="box"):
    """k.p system with a closed Fermi surface well inside the cell; `subset` selects which analytic derivatives are
       supplied (the others are computed by SystemKP with finite differences), `cartesian` the k convention of the
       user functions, `cell` how the reciprocal cell is given (kmax box / hexagonal real_lattice / monoclinic or
       triclinic recip_lattice).  Cells that SystemKP (find_shells) rejects are re-drawn and counted."""
    wb = _c08._wb()
    terms, par = kp_poly(rs, nband)
    fun = [poly_derivative(terms, o) for o in range(4)]
    for attempt in range(240):
        # after 200 rejected draws of this kind of cell fall back to the monoclinic one
        key, mat, recip = draw_cell(rs, cell if attempt < 200 else "mono")
        user = fun if cartesian else [(lambda k, f=f, recip=recip: f(np.asarray(k, dtype=float) @ recip)) for f in fun]
        kw = dict(Ham=user[0], k_vector_cartesian=cartesian)
        kw[key] = mat
        if key != "kmax":
            kw["kmax"] = None
        if subset in ("d1", "d1d2", "d1d2d3"):
            kw["derHam"] = user[1]
        if subset in ("d1d2", "d1d2d3"):
            kw["der2Ham"] = user[2]
        if subset == "d1d2d3":
            kw["der3Ham"] = user[3]
        try:
            with quiet():
                s = wb.system.SystemKP(**kw)
            break
        except (RuntimeError, TypeError, ValueError, np.linalg.LinAlgError):   # find_shells gives up on this cell (C31 finding)
            KP_REJECTED[0] += 1
    else:
        raise common_infra("no acceptable k.p cell in 240 draws")
    recip = np.array(s.recip_lattice)
    # lowest band energy on the faces of the cell: Fermi levels must stay well below it (no occupied state may touch
    # the boundary of the cell, otherwise the integration by parts has boundary terms)
    g = np.linspace(-0.5, 0.5, 9)
    eb = min(np.linalg.eigvalsh(fun[0](np.roll(np.array([sg, x, y]), ax) @ recip))[0]
             for ax in range(3) for sg in (-0.5, 0.5) for x in g for y in g)
    gi = np.linspace(-0.5, 0.5, 13)
    emin = min(np.linalg.eigvalsh(fun[0](np.array([x, y, z]) @ recip))[0] for x in gi for y in gi for z in gi)
    par.update(E_boundary_min=float(eb), E_min=float(emin), kind="kp", subset=subset, cartesian=bool(cartesian), cell=cell,
               recip_lattice=recip.tolist())
    return s, par, fun


def run_pairs(ctx, s, par, names, ef, kT, NK, NKFFT):
    wb = _c08._wb()
    from wannierberri.calculators import static
    from wannierberri.smoother import FermiDiracSmoother
    sm = FermiDiracSmoother(ef, T_Kelvin=kT / 8.617333262e-5, maxdE=5)
    calcs = {n: getattr(static, n)(Efermi=ef, smoother=sm) for n in names}
    with quiet():
        grid = wb.Grid(s, NK=NK, NKFFT=NKFFT)
        res = wb.run(s, grid=grid, calculators=calcs, parallel=False, adpt_num_iter=0, use_irred_kpt=False,
                     symmetrize=False, print_progress_step_time=1e9, fout_name=os.path.join(ctx.work, "c28run"))
    sel = slice(sm.NE1 + 1, len(ef) - sm.NE1 - 1)     # the smoother renormalises near the ends of the E_F range
    return {n: np.array(res.results[n].dataSmooth)[sel] for n in names}, ef[sel]


def deviation(A, B):
    nA, nB = np.linalg.norm(A), np.linalg.norm(B)
    n = max(nA, nB)
    return (np.linalg.norm(A - B) / n if n > 0 else 0.0), nA, nB


def hint_for(A, B, tol):
    n = max(np.linalg.norm(A), np.linalg.norm(B))
    if np.linalg.norm(A + B) / n < tol:
        return " (the two results are opposite in sign)"
    if A.ndim == 3 and np.linalg.norm(A - B.swapaxes(1, 2)) / n < tol:
        return " (they agree after swapping the two cartesian axes)"
    return ""


def refine(NK):
    return NK + 4


def tol_for(pair, NK):
    if "Fermider2" in pair[1]:        # f'' needs a finer k-grid than f and f' (oracle-only extra pair)
        return 0.15 if NK < 20 else 0.10
    if "NLDrude" in pair[0]:
        return 0.08 if NK < 20 else 0.05
    return 0.04 if NK < 20 else 0.03


def check_model(ctx, s, par, pairs, ef, kT, NK, nkfft, keep_fn, devs):
    """run the paired calculators on one model; a pair that disagrees beyond the tolerance is re-run on refined grids:
       discretisation error shrinks with the grid, though not monotonically (the pair is accepted when it falls below
       the tolerance on one of the refined grids up to 28^3, or is still shrinking steadily there), a wrong sign /
       axis order / factor / derivative does not"""
    dE = ef[1] - ef[0]
    case = dict(model=par, NK=NK, kT=kT, kT_over_dE=kT / dE, Efermi=[float(ef[0]), float(ef[-1]), len(ef)])
    names = sorted({n for p in pairs for n in p})
    try:
        data, efsel = run_pairs(ctx, s, par, names, ef, kT, NK, nkfft(NK))
    except Exception as e:  # noqa
        ctx.fail(f"run() of the paired calculators raised {type(e).__name__}: {str(e)[:300]}", case)
        return
    keep = keep_fn(efsel)
    data = {n: v[keep] for n, v in data.items()}
    pending = []
    for a, b in pairs:
        A, B = data[a], data[b]
        dev, nA, nB = deviation(A, B)
        if A.shape != B.shape or A.shape[0] < 8 or not max(nA, nB) > 0:
            ctx.fail(f"{a} / {b}: nothing to compare (shapes {A.shape} / {B.shape}, norms {nA:.2e} / {nB:.2e}): the oracle "
                     f"would be vacuous", case)
            continue
        asym = np.linalg.norm(A - A.swapaxes(1, 2)) / max(nA, 1e-300) if A.ndim == 3 else 0.0
        ctx.case(signature=(a, b, repr(sorted((k, repr(v)) for k, v in par.items())), NK),
                 nontrivial=(A.ndim != 3 or asym > 0.05))
        ctx.count(f"oracle.{a.replace('_FermiSea', '')}.{par['kind']}")
        if A.ndim == 3:
            ctx.count("oracle.rank2.asymmetric" if asym > 0.05 else "oracle.rank2.nearly_symmetric")
        devs.append((a, b, NK, dev, par["kind"]))
        if dev > tol_for((a, b), NK):
            pending.append((a, b, [(NK, dev)], A, B))
    # convergence-based verdict for the pairs above the tolerance
    level = NK
    while pending and level < 28:
        level = refine(level)
        pnames = sorted({n for p in pending for n in p[:2]})
        ctx.count("oracle.refinements")
        try:
            d2, ef2 = run_pairs(ctx, s, par, pnames, ef, kT, level, nkfft(level))
        except Exception as e:  # noqa
            ctx.fail(f"run() on the refined grid raised {type(e).__name__}: {str(e)[:300]}", case)
            return
        k2 = keep_fn(ef2)
        nxt = []
        for a, b, hist, A0, B0 in pending:
            A, B = d2[a][k2], d2[b][k2]
            dev, nA, nB = deviation(A, B)
            hist = hist + [(level, dev)]
            tol = tol_for((a, b), level)
            if dev <= tol:
                ctx.note(f"{a}/{b} ({par['kind']}): above tolerance on the coarse grid, converged on refinement: "
                         + ", ".join(f"{n}^3: {d:.3f}" for n, d in hist))
                continue
            # discretisation error does NOT shrink monotonically (observed on the unchanged code: 0.052, 0.058, 0.018,
            # 0.013, 0.008 on 16..48^3): keep refining up to the grid limit; only a discrepancy far beyond any
            # discretisation error seen (> 0.3) that does not shrink is reported at once
            if level < 28 and not (dev > 0.3 and dev >= 0.7 * hist[-2][1]):
                nxt.append((a, b, hist, A, B))
                continue
            if dev < 0.7 * hist[-2][1] and dev < 0.5 * hist[0][1]:
                ctx.note(f"{a}/{b} ({par['kind']}): still {dev:.3f} on the finest grid tried but shrinking steadily: "
                         + ", ".join(f"{n}^3: {d:.3f}" for n, d in hist))
                continue
            ctx.fail(f"{a} and {b} disagree and the disagreement does not converge away: |sea - surf| / max(|sea|,|surf|) = "
                     + ", ".join(f"{d:.3f} on {n}^3" for n, d in hist)
                     + f" (tolerance {tol}), kT = {kT:.3f} eV ({kT / dE:.0f} dE){hint_for(A, B, tol)}",
                     dict(case, history=hist, norm_sea=nA, norm_surf=nB, sea=A[len(A) // 2], surf=B[len(B) // 2]))
        pending = nxt
    for a, b, hist, A, B in pending:      # grid limit reached while still converging
        ctx.note(f"{a}/{b} ({par['kind']}): {hist[-1][1]:.3f} at the grid limit, shrinking: " + ", ".join(f"{n}^3: {d:.3f}" for n, d in hist))


def oracle(ctx, scale):
    st = getattr(ctx, "_c28", None)
    rs = np.random.RandomState(ctx.rng.getrandbits(31))
    if st is None:
        table, _ = probe_calculators(rs)
        st = ctx._c28 = dict(table=table)
    table = st["table"]
    pairs = documented_pairs(table)
    thorough = ctx.tier == "thorough" or scale > 1
    extra = [p for p in EXTRA_PAIRS if all(x in table for x in p)] if thorough else []
    if not thorough:
        pairs = [p for p in pairs if not p[0].startswith("Hall_classic")]      # rank-4 formula: thorough tier only
    devs = []
    # Tolerances are convergence tolerances.  The code smooths T = 0 data that were binned on the E_F grid, so the
    # effective occupation is a staircase of step dE: with dE = kT/6 the k-sum of the parity-odd, cancellation-prone
    # nonlinear Drude tensor is 9-17 % off at 12^3, with dE = kT/24 it is 2 % (rank-2 pairs <= 2 %).  Hence dE = kT/24.
    # A wrong sign gives 2.0, a wrong axis order O(1); see check_model for the convergence-based verdict.
    tb_plan = [("chiral", ctx.n(12, 16))]
    if thorough:
        tb_plan += [("haldane", 16), ("chiral", 20 if scale == 1 else 16)]
    for kind, NK in tb_plan:
        s, par = tb_model(rs, kind)
        ef = np.arange(-12.0, 13.0, 0.05) if kind == "chiral" else np.arange(-10.0, 10.0, 0.05)
        kT = 1.2 if kind == "chiral" else 1.0
        check_model(ctx, s, par, list(pairs) + extra, ef, kT, NK, lambda n: n // 2 if n % 2 == 0 else n,
                    lambda e: np.ones(len(e), dtype=bool), devs)
    # k.p models: non-parabolic, analytic derivatives supplied in every subset, both k conventions.
    # (spin pairs do not exist for k.p; Hall_classic is compared on the tight-binding models; the f'' form needs
    #  dE_k <~ 0.7 kT, i.e. > 40^3 points for a box-confined k.p band, and is compared on the tight-binding models only)
    kp_pairs = [p for p in pairs if not p[0].startswith(("GME_spin", "Hall_classic"))]
    kp_rank2 = [p for p in kp_pairs if "NLDrude" not in p[0]]
    # cells: kmax box and cells given through real_lattice= / recip_lattice= with a NON-symmetric reciprocal matrix
    # (hexagonal, monoclinic, triclinic); with partially analytic derivatives the finite-difference stencil of SystemKP
    # enters the sea forms only, so a wrong stencil shows up as a sea/surface disagreement
    if thorough:
        kp_plan = [(2, sub, cart, 12, kp_rank2, KP_CELLS[(2 * i + j + int(rs.randint(4))) % 4])
                   for i, sub in enumerate(KP_SUBSETS) for j, cart in enumerate((True, False))]
        kp_plan += [(2, "d1", bool(rs.randint(2)), 12, kp_rank2, str(rs.choice(["hex", "mono", "tri"]))),
                    (2, "d1d2d3", bool(rs.randint(2)), 20, kp_pairs, str(rs.choice(KP_CELLS))),
                    (1, "d1d2", bool(rs.randint(2)), 20, kp_pairs, str(rs.choice(["hex", "mono", "tri"])))]
    else:
        kp_plan = [(2, str(rs.choice(["d1", "d1d2", "d1d2d3"])), bool(rs.randint(2)), 12, kp_rank2, str(rs.choice(KP_CELLS)))]
    for nband, subset, cart, NK, plist, cell in kp_plan:
        s, par, _ = kp_model(rs, nband=nband, subset=subset, cartesian=cart, cell=cell)
        kT = 0.6
        ef = np.arange(par["E_min"] - 6 * kT - 0.3, par["E_boundary_min"], 0.025)
        if nband == 1:      # no Berry curvature / orbital moment in a one-band model
            plist = [p for p in plist if p[0].startswith(("Ohmic", "NLDrude"))]
        # only Fermi levels for which the occupied region stays inside the box: f(E_boundary) < exp(-8)
        check_model(ctx, s, par, plist, ef, kT, NK, lambda n: n,
                    lambda e, eb=par["E_boundary_min"], kT=kT: e < eb - 8 * kT, devs)
        ctx.count(f"oracle.kp.subset={subset}.{'cartesian' if cart else 'reduced'}.nband={nband}")
        ctx.count(f"oracle.kp.cell={cell}")
    if devs:
        for lab, dd in (("rank-2 pairs", [d for d in devs if "NLDrude" not in d[0]]),
                        ("nonlinear Drude sea/surface", [d for d in devs if "NLDrude" in d[0] and "Fermider2" not in d[1]]),
                        ("nonlinear Drude sea/f''", [d for d in devs if "Fermider2" in d[1]])):
            if dd:
                w = max(dd, key=lambda x: x[3])
                ctx.note(f"largest first-pass discrepancy, {lab}: {w[3]:.4f} ({w[0]}, {w[4]}, {w[2]}^3); a sign error "
                         f"gives 2.0, an axis error O(1)")
    ctx.sample(dict(pairs=pairs + extra, tb_plan=tb_plan, kp_plan=[p[:4] + p[5:] for p in kp_plan]))
    if KP_REJECTED[0]:
        ctx.note(f"{KP_REJECTED[0]} drawn k.p cells were rejected by SystemKP/find_shells and re-drawn (registered C31 finding)")
        ctx.count("kp.cells_rejected_by_find_shells", KP_REJECTED[0])
    history_oracle(ctx, rs, table, thorough)


def history_oracle(ctx, rs, table, thorough):
    """call HISTORIES: the same calculator objects are reused across models with different numbers of bands, cell volumes,
       FFT grids and k-shifts, small -> large and large -> small; after every call the result must equal (to rounding) the
       result of a FRESH calculator object on the same Data_K.  (Reused == fresh means the sea/surface comparison of a
       reused object is the comparison already made with fresh ones.)"""
    wb = _c08._wb()
    from wannierberri.calculators import static
    from wannierberri.grid import Grid
    from wannierberri.grid.Kpoint import KpointBZparallel
    from wannierberri.data_K import get_data_k_class_from_system
    with quiet():
        kp1, par1, _ = kp_model(rs, nband=1, subset="d1d2d3", cartesian=True)
        kp2, par2, _ = kp_model(rs, nband=2, subset="d1d2", cartesian=bool(rs.randint(2)))
        tb2, part = tb_model(rs, "chiral")
        r3 = _c08.build_model(rs, "none", 3)
        r4 = _c08.build_model(rs, "none", int(rs.choice([4, 5])))
    systems = [("kp-1band", kp1, 1), ("kp-2band", kp2, 2), ("chiral-2band", tb2, 2), ("random-3band", r3, 3),
               (f"random-{r4.num_wann}band", r4, r4.num_wann)]
    ef = np.linspace(-3.0, 6.0, 19)
    names = sorted({n for p in documented_pairs(table) for n in p} | {"AHC", "Morb", "DOS", "CumDOS", "NLDrude_Fermider2"})
    names = [n for n in names if n in table]
    orders = [list(range(len(systems))), list(reversed(range(len(systems))))]
    if thorough:
        orders.append([int(i) for i in rs.permutation(len(systems))])
    for tetra in ((False, True) if thorough else (bool(rs.randint(2)),)):
        for order in orders:
            with quiet():
                reused = {n: getattr(static, n)(Efermi=ef, tetra=tetra) for n in names}
            hist = []
            for i in order:
                label, s, nb = systems[i]
                nfft = int(rs.choice([1, 2, 3]))
                shift = rs.uniform(0, 1, 3) / nfft
                with quiet():
                    grid = Grid(system=s, NK=nfft, NKFFT=nfft)
                    kp = KpointBZparallel(K=shift * nfft, dK=np.ones(3), NKFFT=np.array([nfft] * 3), factor=1., pointgroup=None)
                    mk = lambda: get_data_k_class_from_system(s)(s, grid=grid, dK=shift, Kpoint=kp)
                hist.append(dict(system=label, num_wann=nb, NKFFT=nfft, cell_volume=float(s.cell_volume)))
                for n in names:
                    if "kp" in label and table[n]["formula"] in ("DerSpin", "VelSpin", "Spin"):
                        continue
                    if "kp" in label and tetra:
                        continue                     # corner energies of a k.p box are not defined beyond the box
                    case = dict(calculator=n, tetra=tetra, history=list(hist))
                    try:
                        with quiet():
                            fresh = np.array(getattr(static, n)(Efermi=ef, tetra=tetra)(mk()).data)
                    except Exception as e:  # noqa
                        ctx.note(f"history: {n} cannot run on {label} even when fresh ({type(e).__name__}); skipped")
                        continue
                    try:
                        with quiet():
                            got = np.array(reused[n](mk()).data)
                    except Exception as e:  # noqa
                        ctx.fail(f"{n} (tetra={tetra}) reused after {[h['system'] for h in hist[:-1]]} raises on {label}: "
                                 f"{type(e).__name__}: {str(e)[:150]} - a fresh calculator object works", case)
                        continue
                    scale = max(np.abs(fresh).max(), 1e-300)
                    dev = np.abs(got - fresh).max() / scale if fresh.shape == got.shape else np.inf
                    ctx.case(signature=("history", n, tetra, tuple(order), label, nfft), nontrivial=len(hist) > 1 and np.abs(fresh).max() > 0)
                    ctx.count(f"oracle.history.{'tetra' if tetra else 'plain'}")
                    if dev > 1e-10:
                        ctx.fail(f"{n} (tetra={tetra}): a calculator object reused after {[h['system'] for h in hist[:-1]]} gives a "
                                 f"result on {label} that differs from a fresh object's by {dev:.3e} (relative)",
                                 dict(case, reused=got[len(got) // 2], fresh=fresh[len(fresh) // 2]))


def replay(ctx, case):
    """re-run the check with the recorded seed and tier: the models (parameters are also listed in the recorded case)
       are functions of the seed"""
    _c08.reseed(ctx, case)
    tables(ctx)
    corr(ctx)
    oracle(ctx, 1)


if __name__ == "__main__":
    # maintenance: regenerate lean/WB/Lemmas/C28Snapshot.lean from the current /repo
    rs0 = np.random.RandomState(1)
    table0, notes0 = probe_calculators(rs0)
    rows0, oo, problems0 = pair_rows(table0)
    with open(os.path.join(VERIF, "lean", "WB", "Lemmas", "C28Snapshot.lean"), "w") as f:
        f.write("/-\n  C28 — snapshot of the calculator table extracted from /repo (generated by `python -m harness.props.c28`;\n"
                "  the live table is regenerated and re-checked on every run).\n  pairs: "
                + ", ".join(f"{a}/{b}" for a, b, _ in rows0) + "\n-/\nimport WB.Model.C28\nnamespace WB.C28\n\n"
                "def snapshotPairs : List Pair := [\n" + ",\n".join(r for _, _, r in rows0) + "\n]\n\nend WB.C28\n")
    for n, r in sorted(table0.items()):
        print(n, r)
    print("notes", notes0, "oracle-only", oo, "problems", problems0)
