import argparse
import importlib
import os
import sys

sys.path.insert(0, os.path.dirname(os.path.dirname(os.path.abspath(__file__))))


def main():
    ap = argparse.ArgumentParser()
    ap.add_argument("pid")
    ap.add_argument("--tier", default=os.environ.get("VERIF_TIER", "quick"), choices=["quick", "thorough"])
    ap.add_argument("--replay", default=None)
    ap.add_argument("--seed", type=int, default=int(os.environ.get("VERIF_SEED", "0")))
    a = ap.parse_args()
    from harness import common
    mod = importlib.import_module(f"harness.props.{a.pid.lower()}")
    rc = common.run_check(mod, a.tier, a.seed, a.replay)
    sys.stdout.flush()
    os._exit(rc)


main()
