"""Shared machinery of the wannier-berri verification checks.

A property module (harness/props/cXX.py) defines

    PID       = "CXX"
    TRUSTED   = [...]            # property specific additions to the trusted base
    def corr(ctx):   ...         # component correspondence: Lean model vs the real code
    def oracle(ctx, scale): ...  # the property itself, checked on the real code
    def replay(ctx, case): ...   # optional: re-run one recorded case

and reports through the Ctx object:  ctx.mismatch(...) when model and code differ,
ctx.fail(...) when the *real code* violates the property on a concrete input.
"""
import fractions
import hashlib
import io
import json
import os
import random
import re
import subprocess
import sys
import time
import contextlib
import traceback

VERIF = os.path.dirname(os.path.dirname(os.path.abspath(__file__)))
LEAN = os.path.join(VERIF, "lean")
REPO = os.environ.get("WB_REPO", "/repo")
ALLOWED_AXIOMS = {"propext", "Classical.choice", "Quot.sound"}
BANNED = re.compile(r"\bsorry\b|\badmit\b|^\s*axiom\s|native_decide|bv_decide|implemented_by|\bunsafe\s|maxHeartbeats\s+0\b")

BASE_TRUSTED = [
    "Lean 4.33.0 kernel; axioms allowed: propext, Classical.choice, Quot.sound (audited with #print axioms on every run)",
    "Mathlib v4.33.0 as a library of already-checked theorems",
    "the Python harness (generators, canonicalisation, tolerances) and the Lean driver's parsing/printing",
    "numpy/scipy/FFTW/numba kernels are modelled by their mathematical contract, not verified",
    "theorems are over exact fields (Rat / any Field); the code computes in IEEE doubles - compared within rounding",
]


def F(x):
    """exact rational value of a python float / int / Fraction"""
    if isinstance(x, fractions.Fraction):
        return x
    if isinstance(x, int):
        return fractions.Fraction(x)
    import numpy as np
    if isinstance(x, (np.integer,)):
        return fractions.Fraction(int(x))
    return fractions.Fraction(float(x))


def rat(x):
    f = F(x)
    return str(f.numerator) if f.denominator == 1 else f"{f.numerator}/{f.denominator}"


def rats(xs):
    xs = list(xs)
    return ",".join(rat(x) for x in xs) if xs else "_"


def ints(xs):
    xs = list(xs)
    return ",".join(str(int(x)) for x in xs) if xs else "_"


def intss(xss):
    xss = list(xss)
    return ";".join(ints(x) for x in xss) if xss else "_"


def ratss(xss):
    xss = list(xss)
    return ";".join(rats(x) for x in xss) if xss else "_"


def parse_rat(s):
    return fractions.Fraction(s)


def parse_rats(s):
    return [] if s == "_" else [fractions.Fraction(t) for t in s.split(",")]


def parse_ints(s):
    return [] if s == "_" else [int(t) for t in s.split(",")]


def parse_intss(s):
    return [] if s == "_" else [parse_ints(t) for t in s.split(";")]


def parse_ratss(s):
    return [] if s == "_" else [parse_rats(t) for t in s.split(";")]


@contextlib.contextmanager
def quiet():
    """silence the chatter of wannierberri (prints a lot to stdout)"""
    old = sys.stdout
    sys.stdout = io.StringIO()
    try:
        yield
    finally:
        sys.stdout = old


def jsonable(o):
    import numpy as np
    if isinstance(o, dict):
        return {str(k): jsonable(v) for k, v in o.items()}
    if isinstance(o, (list, tuple, set)):
        return [jsonable(v) for v in o]
    if isinstance(o, np.ndarray):
        if np.iscomplexobj(o):
            return {"re": o.real.tolist(), "im": o.imag.tolist()}
        return o.tolist()
    if isinstance(o, (np.integer,)):
        return int(o)
    if isinstance(o, (np.floating,)):
        return float(o)
    if isinstance(o, (np.bool_,)):
        return bool(o)
    if isinstance(o, complex):
        return {"re": o.real, "im": o.imag}
    if isinstance(o, fractions.Fraction):
        return str(o)
    if isinstance(o, (str, int, float, bool)) or o is None:
        return o
    return repr(o)


def _default_run_output(work):
    """wannierberri.run() writes `<fout_name>-<calculator>_iter-NNNN.dat/.npz` with the default fout_name="result",
    i.e. into the current directory (/verif).  Oracles that do not pass fout_name get one inside the check's scratch
    directory; nothing else about run() is touched."""
    try:
        import wannierberri
    except Exception:  # noqa
        return
    orig = getattr(wannierberri.run, "_verif_orig", wannierberri.run)

    def run(*a, **k):
        k.setdefault("fout_name", os.path.join(work, "result"))
        return orig(*a, **k)
    run._verif_orig = orig
    run.__doc__ = orig.__doc__
    wannierberri.run = run


class Ctx:
    def __init__(self, pid, tier, seed):
        self.pid = pid
        self.tier = tier
        self.seed = seed
        self.rng = random.Random(seed * 1000003 + int(hashlib.sha1(pid.encode()).hexdigest()[:6], 16))
        self.t0 = time.time()
        self.hist = {}
        self.samples = []
        self.mismatches = []   # model vs code
        self.failures = []     # real code violates property
        self.known_hits = {}
        self.evaluations = 0
        self.nontrivial = set()
        self.corr_cases = 0
        self.notes = []
        self.proof = None
        self.work = os.path.join(VERIF, ".work", f"{pid}-{os.getpid()}")
        os.makedirs(self.work, exist_ok=True)
        _default_run_output(self.work)
        self.known = load_known(pid)
        self.searching = False

    # ---- sizes -----------------------------------------------------------------------
    def n(self, quick, thorough):
        return quick if self.tier == "quick" else thorough

    def nprng(self):
        import numpy as np
        return np.random.default_rng(self.rng.getrandbits(63))

    # ---- bookkeeping -------------------------------------------------------------------
    def count(self, key, k=1):
        self.hist[key] = self.hist.get(key, 0) + k

    def case(self, signature=None, nontrivial=True):
        """register one evaluated case; signature identifies it for the distinct count"""
        self.evaluations += 1
        if nontrivial and signature is not None:
            self.nontrivial.add(hashlib.sha1(repr(signature).encode()).hexdigest()[:16])

    def sample(self, obj, limit=4):
        if len(self.samples) < limit:
            self.samples.append(jsonable(obj))

    def note(self, s):
        self.notes.append(s)

    def mismatch(self, what, case):
        self.mismatches.append({"what": what, "case": jsonable(case)})

    def fail(self, what, case, kf=None):
        """the REAL code violates the property on `case`.  kf = key of the input class, matched
        against known_findings.json"""
        if kf is not None and kf in self.known:
            self.known_hits.setdefault(kf, {"what": what, "case": jsonable(case)})
            return
        self.failures.append({"what": what, "case": jsonable(case), "kf": kf})

    @contextlib.contextmanager
    def attempt(self, what, case, kf=None):
        """run real-code calls for one case; an exception raised by the code under test on a valid
        input is itself a failure of the property on that input"""
        try:
            yield
        except (InfraError, subprocess.TimeoutExpired, KeyboardInterrupt):
            raise
        except Exception as e:  # noqa
            tb = traceback.format_exc().strip().split("\n")
            self.fail(f"{what}: raised {type(e).__name__}: {str(e)[:300]} @ {tb[-3:-1]}", case, kf=kf)

    # ---- Lean ------------------------------------------------------------------------
    DRIVER = """import WB.Model.{pid}
partial def loop (h : IO.FS.Stream) (out : IO.FS.Stream) : IO Unit := do
  let line ← h.getLine
  if line.isEmpty then return ()
  out.putStrLn (WB.{pid}.handle (WB.IO.tokens line))
  loop h out
def main : IO Unit := do loop (← IO.getStdin) (← IO.getStdout)
"""

    def lean(self, lines, timeout=900, model=None):
        """run protocol lines (one op per line, tokens separated by blanks) through the Lean model
        `WB.<pid>.handle`; returns the list of output lines (one per input line)"""
        lines = list(lines)
        if not lines:
            return []
        model = model or self.pid
        drv = os.path.join(self.work, f"Driver{model}.lean")
        with open(drv, "w") as f:
            f.write(self.DRIVER.format(pid=model))
        inp = "\n".join(lines) + "\n"
        p = subprocess.run(["lake", "env", "lean", "--run", drv], cwd=LEAN, input=inp,
                           capture_output=True, text=True, timeout=timeout)
        out = p.stdout.split("\n")
        if out and out[-1] == "":
            out.pop()
        if p.returncode != 0 or len(out) != len(lines):
            raise InfraError(f"lean driver failed rc={p.returncode} lines_in={len(lines)} lines_out={len(out)}\n"
                             f"stderr: {p.stderr[-2000:]}\nstdout-tail: {p.stdout[-500:]}")
        self.corr_cases += len(lines)
        return out

    def lean_file(self, name, text, timeout=900):
        """compile a generated Lean file (regenerated tables); returns (ok, output)"""
        path = os.path.join(self.work, name)
        with open(path, "w") as f:
            f.write(text)
        p = subprocess.run(["lake", "env", "lean", path], cwd=LEAN, capture_output=True, text=True, timeout=timeout)
        return p.returncode == 0 and "error" not in p.stdout, p.stdout + p.stderr

    def audit(self):
        self.proof = audit(self.pid, self.work, thorough=(self.tier == "thorough"))
        return self.proof


class InfraError(Exception):
    pass


def theorem_names(pid):
    """names of the theorems (obligations) in WB/Props/<pid>.lean, fully qualified"""
    path = os.path.join(LEAN, "WB", "Props", f"{pid}.lean")
    src = open(path).read()
    names = []
    ns = []
    for line in src.split("\n"):
        m = re.match(r"^namespace\s+(\S+)", line)
        if m:
            ns.append(m.group(1))
            continue
        m = re.match(r"^end\s+(\S+)", line)
        if m and ns and ns[-1].split(".")[-1] == m.group(1).split(".")[-1]:
            ns.pop()
            continue
        m = re.match(r"^(?:@\[[^\]]*\]\s*)?(?:protected\s+|private\s+)?theorem\s+([^\s:({\[]+)", line)
        if m:
            names.append(".".join(ns + [m.group(1)]))
    return names, src


def strip_comments(src):
    src = re.sub(r"/-.*?-/", "", src, flags=re.S)
    src = re.sub(r"--.*", "", src)
    return src


def lean_sources_for(pid):
    """files whose text is grepped for banned constructs: WB/Props/<pid>.lean and every WB module it imports,
    transitively (other properties' files, possibly mid-edit, are not this property's business)"""
    seen, todo = [], [f"WB.Props.{pid}"]
    while todo:
        mod = todo.pop()
        path = os.path.join(LEAN, *mod.split(".")) + ".lean"
        if path in seen or not os.path.exists(path):
            continue
        seen.append(path)
        for m in re.finditer(r"^\s*(?:public\s+)?import\s+(WB\.[A-Za-z0-9_.]+)", open(path).read(), flags=re.M):
            todo.append(m.group(1))
    return sorted(seen)


def audit(pid, work, thorough=False):
    """Proof obligations of a property: every theorem in WB/Props/<pid>.lean must compile and depend
    only on the allowed axioms.  Returns a dict."""
    t0 = time.time()
    names, src = theorem_names(pid)
    res = {"obligations": len(names), "discharged": 0, "theorems": {}, "ok": False, "errors": []}
    # 1. banned constructs (outside comments) in all Lean sources
    for path in lean_sources_for(pid):
        txt = strip_comments(open(path).read())
        for i, line in enumerate(txt.split("\n")):
            if BANNED.search(line):
                res["errors"].append(f"banned construct in {os.path.relpath(path, VERIF)}: {line.strip()[:80]}")
    # 2. build the module (no-op when up to date) - this re-checks the proofs if sources changed
    p = subprocess.run(["lake", "build", f"WB.Props.{pid}"], cwd=LEAN, capture_output=True, text=True, timeout=3000)
    if p.returncode != 0:
        res["errors"].append("lake build failed: " + (p.stdout + p.stderr)[-1500:])
        res["wall_s"] = time.time() - t0
        return res
    # 3. axioms
    aud = os.path.join(work, f"Audit{pid}.lean")
    with open(aud, "w") as f:
        f.write(f"import WB.Props.{pid}\n")
        for n in names:
            f.write(f"#print axioms {n}\n")
    p = subprocess.run(["lake", "env", "lean", aud], cwd=LEAN, capture_output=True, text=True, timeout=1800)
    out = p.stdout + p.stderr
    # parse:  'X' depends on axioms: [a, b]   |   'X' does not depend on any axioms
    flat = re.sub(r"\s+", " ", out)
    for n in names:
        m = re.search(r"'" + re.escape(n) + r"' depends on axioms: \[([^\]]*)\]", flat)
        if m:
            ax = [a.strip() for a in m.group(1).split(",") if a.strip()]
        elif re.search(r"'" + re.escape(n) + r"' does not depend on any axioms", flat):
            ax = []
        else:
            res["errors"].append(f"theorem {n}: no axiom report (does it compile?)")
            continue
        bad = [a for a in ax if a not in ALLOWED_AXIOMS]
        res["theorems"][n] = ax
        if bad:
            res["errors"].append(f"theorem {n} depends on disallowed axioms {bad}")
        else:
            res["discharged"] += 1
    if p.returncode != 0:
        res["errors"].append("audit file failed: " + out[-800:])
    if thorough:
        p = subprocess.run(["lake", "env", "leanchecker", f"WB.Props.{pid}"], cwd=LEAN, capture_output=True,
                           text=True, timeout=3000)
        res["leanchecker"] = "ok" if p.returncode == 0 else (p.stdout + p.stderr)[-500:]
        if p.returncode != 0:
            res["errors"].append("leanchecker rejected the module: " + res["leanchecker"])
    res["ok"] = (not res["errors"]) and res["discharged"] == res["obligations"] and res["obligations"] > 0
    res["wall_s"] = round(time.time() - t0, 2)
    return res


def load_known(pid):
    path = os.path.join(VERIF, "known_findings.json")
    if not os.path.exists(path):
        return {}
    data = json.load(open(path))
    return {e["key"]: e for e in data.get("findings", []) if e["property"] == pid and e.get("status") == "known"}


def write_evidence(ctx, mod, violations, wall):
    proof = ctx.proof or {"obligations": 0, "discharged": 0, "theorems": {}}
    cov = {
        "obligations": proof["obligations"],
        "discharged": proof["discharged"],
        "checker_cmd": f"cd lean && lake build WB.Props.{ctx.pid} && lake env lean <audit file with #print axioms for each theorem>"
                       + (" && lake env leanchecker WB.Props." + ctx.pid if ctx.tier == "thorough" else ""),
        "trusted_base": BASE_TRUSTED + list(getattr(mod, "TRUSTED", [])),
        "theorems": proof.get("theorems", {}),
        "proof_errors": proof.get("errors", []),
        "evaluations": ctx.evaluations,
        "distinct_nontrivial": len(ctx.nontrivial),
        "rule": getattr(mod, "RULE", "cases are generated from one seeded PRNG; a case is non-trivial by the rule "
                                      "stated in the property module; distinct = distinct signature hash"),
        "model_vs_code_lines": ctx.corr_cases,
        "model_vs_code_mismatches": len(ctx.mismatches),
        "real_code_failures": len(ctx.failures),
        "known_findings_hit": sorted(ctx.known_hits),
        "input_distribution": dict(sorted(ctx.hist.items())),
        "samples": ctx.samples if ctx.samples else [{"note": "no sample recorded"}],
        "notes": ctx.notes,
    }
    ev = {
        "property_id": ctx.pid,
        "tier": ctx.tier,
        "seed": ctx.seed,
        "level": "proof",
        "coverage": cov,
        "assumptions": BASE_TRUSTED + list(getattr(mod, "TRUSTED", [])),
        "wall_s": round(wall, 2),
        "violations": violations,
    }
    os.makedirs(os.path.join(VERIF, "evidence"), exist_ok=True)
    with open(os.path.join(VERIF, "evidence", f"{ctx.pid}.json"), "w") as f:
        json.dump(ev, f, indent=1)


def write_replay(ctx, kind, payload):
    os.makedirs(os.path.join(VERIF, "replays"), exist_ok=True)
    path = os.path.join("replays", f"{ctx.pid}-{kind}-seed{ctx.seed}.json")
    with open(os.path.join(VERIF, path), "w") as f:
        json.dump(jsonable({"property": ctx.pid, "seed": ctx.seed, "tier": ctx.tier, "kind": kind, **payload}), f, indent=1)
    return path


def guarded(ctx, fn, *args):
    """run one stage of a property module.  An exception that escapes the stage and was raised INSIDE the code
    under test (innermost wannierberri frame under WB_REPO) on a harness-generated valid input is a failure of the
    property on that input, not an infrastructure problem; anything else is re-raised (exit 2)."""
    try:
        fn(*args)
    except (InfraError, subprocess.TimeoutExpired, KeyboardInterrupt):
        raise
    except Exception as e:  # noqa
        root = os.path.realpath(REPO) + os.sep
        frames = traceback.extract_tb(e.__traceback__)
        if frames and os.path.realpath(frames[-1].filename).startswith(root) or \
                any(os.path.realpath(f.filename).startswith(root) for f in frames[-4:]):
            where = [f"{os.path.relpath(f.filename, root)}:{f.lineno} {f.name}" for f in frames
                     if os.path.realpath(f.filename).startswith(root)][-3:]
            ctx.fail(f"{fn.__name__}: the code under test raised {type(e).__name__}: {str(e)[:300]} at {where}",
                     {"traceback": traceback.format_exc().strip().split("\n")[-14:]})
        else:
            raise


def run_check(mod, tier, seed, replay=None):
    pid = mod.PID
    ctx = Ctx(pid, tier, seed)
    t0 = time.time()
    try:
        if replay:
            case = json.load(open(replay))
            if hasattr(mod, "replay"):
                mod.replay(ctx, case)
            else:
                print(json.dumps(case, indent=1)[:4000])
            for fl in ctx.failures:
                print("REPLAY-FAIL:", fl["what"])
            return 1 if ctx.failures else 0
        proof = ctx.audit()
        if hasattr(mod, "tables"):
            guarded(ctx, mod.tables, ctx)
        if hasattr(mod, "corr"):
            guarded(ctx, mod.corr, ctx)
        guarded(ctx, mod.oracle, ctx, 1)
        broken = (not proof["ok"]) or bool(ctx.mismatches)
        if broken and not ctx.failures:
            # the tie between theorem and code no longer checks: search the implementation for a failing input
            ctx.searching = True
            ctx.note("proof/correspondence broken: running the failing-input search (oracle x8)")
            guarded(ctx, mod.oracle, ctx, 8)
        rc = 0
        nviol = 0
        for key, hit in sorted(ctx.known_hits.items()):
            print(f"KNOWN-FINDING: property={pid} {ctx.known[key]['description']}")
        if ctx.failures:
            nviol = len(ctx.failures)
            path = write_replay(ctx, "impl", {"failures": ctx.failures[:5], "mismatches": ctx.mismatches[:3],
                                             "proof_errors": proof["errors"]})
            print(f"  first failure: {ctx.failures[0]['what']}")
            print(f"VIOLATION property={pid} replay={path}")
            rc = 1
        elif broken:
            nviol = 1
            what = []
            if not proof["ok"]:
                what.append({"broken": "proof obligations", "errors": proof["errors"],
                             "obligations": proof["obligations"], "discharged": proof["discharged"]})
            if ctx.mismatches:
                what.append({"broken": "model/implementation correspondence", "first": ctx.mismatches[:5],
                             "count": len(ctx.mismatches)})
            path = write_replay(ctx, "nofail", {"no_longer_checks": what})
            for w in what:
                print("  broken:", w["broken"], (str(w.get("errors") or w.get("first"))[:600]))
            print(f"VIOLATION property={pid} replay={path} no-failing-input-found")
            rc = 1
        write_evidence(ctx, mod, nviol, time.time() - t0)
        print(f"{pid} tier={tier} seed={seed}: obligations {proof['discharged']}/{proof['obligations']}, "
              f"model-vs-code lines {ctx.corr_cases} (mismatches {len(ctx.mismatches)}), "
              f"real-code cases {ctx.evaluations} (failures {len(ctx.failures)}), "
              f"{time.time() - t0:.1f}s -> {'OK' if rc == 0 else 'VIOLATION'}")
        return rc
    except InfraError as e:
        print("INFRASTRUCTURE ERROR:", e)
        return 2
    except subprocess.TimeoutExpired as e:
        print("TIMEOUT:", e)
        return 2
    except Exception:
        traceback.print_exc()
        return 2
    finally:
        import shutil
        shutil.rmtree(ctx.work, ignore_errors=True)
