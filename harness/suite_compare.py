"""compare a junit xml of the repository's test-suite with /root/.vp/BASELINE.json: prints baseline tests that did not pass"""
import json
import sys
import xml.etree.ElementTree as ET

base = set(json.load(open("/root/.vp/BASELINE.json"))["stable_pass"])
passed = set()
for tc in ET.parse(sys.argv[1]).getroot().iter("testcase"):
    if not any(ch.tag in ("failure", "error", "skipped") for ch in tc):
        passed.add(f"{tc.get('classname')}::{tc.get('name')}")
missing = sorted(base - passed)
print(f"baseline {len(base)}  passed-now {len(passed)}  baseline-not-passing {len(missing)}")
for m in missing:
    print("  NOT PASSING:", m)
sys.exit(1 if missing else 0)
