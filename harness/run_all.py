"""run several checks and summarise:  python3 harness/run_all.py [--tier quick] [--seed N] [--jobs J] C01 C02 ...  (default: all claimed)"""
import json, os, subprocess, sys, time
from concurrent.futures import ThreadPoolExecutor
HERE = os.path.dirname(os.path.dirname(os.path.abspath(__file__)))
args = sys.argv[1:]
tier, seed, jobs = "quick", "0", 3
for opt in ("--tier", "--seed", "--jobs"):
    if opt in args:
        i = args.index(opt); v = args[i + 1]; del args[i:i + 2]
        if opt == "--tier": tier = v
        elif opt == "--seed": seed = v
        else: jobs = int(v)
pids = args or [c["property_id"] for c in json.load(open(os.path.join(HERE, "MANIFEST.json")))["checks"]]
def run(pid):
    t = time.time()
    p = subprocess.run(["./check", pid, "--tier", tier, "--seed", seed], cwd=HERE, capture_output=True, text=True)
    lines = [l for l in p.stdout.split("\n") if l.strip()]
    keep = [l for l in lines if l.startswith(("VIOLATION", "KNOWN-FINDING", "INFRA", "TIMEOUT", "  first", "  broken")) or "Traceback" in l]
    return pid, p.returncode, time.time() - t, keep, (lines[-1] if lines else "")
with ThreadPoolExecutor(jobs) as ex:
    res = list(ex.map(run, pids))
bad = 0
for pid, rc, dt, keep, last in res:
    print(f"{pid} rc={rc} {dt:6.1f}s  {last[:150]}")
    for k in keep:
        print("      ", k[:220])
    bad += rc != 0
print(f"{len(res) - bad}/{len(res)} ok")
