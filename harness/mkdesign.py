"""Regenerates the machine-written parts of DESIGN.md (between the AUTO markers):
   section 7 (seeded changes: which check catches which change) and section 8 (theorem inventory per property).
   Run after `python3 harness/run_seeded.py` has written seeded/*/result.json."""
import ast
import json
import os
import re
import sys

HERE = os.path.dirname(os.path.dirname(os.path.abspath(__file__)))
sys.path.insert(0, HERE)


def theorems(pid):
    path = os.path.join(HERE, "lean", "WB", "Props", pid + ".lean")
    if not os.path.exists(path):
        return []
    return re.findall(r"^(?:@\[[^\]]*\]\s*)?theorem\s+([^\s:({\[]+)", open(path).read(), flags=re.M)


def lean_lines(pid):
    n = 0
    for sub in ("Model", "Lemmas", "Props"):
        d = os.path.join(HERE, "lean", "WB", sub)
        for fn in os.listdir(d):
            if fn.startswith(pid) and fn.endswith(".lean"):
                n += sum(1 for _ in open(os.path.join(d, fn)))
    return n


def seeded_section():
    rows = []
    d = os.path.join(HERE, "seeded")
    for name in sorted(os.listdir(d)):
        mp = os.path.join(d, name, "meta.json")
        if not os.path.exists(mp):
            continue
        meta = json.load(open(mp))
        rp = os.path.join(d, name, "result.json")
        res = json.load(open(rp)) if os.path.exists(rp) else {}
        pid = meta["property"]
        chk = res.get("checks", {}).get(pid, {})
        detail = (chk.get("detail") or [""])[0].strip()
        detail = re.sub(r"\s+", " ", detail)[:170]
        verdict = "caught" if res.get("caught") else ("not run" if not res else "MISSED")
        if res.get("tier") == "thorough" and res.get("caught"):
            verdict = "caught (thorough tier)"
        rows.append((name, pid, re.sub(r"\s+", " ", meta.get("summary", ""))[:230],
                     re.sub(r"\s+", " ", meta.get("needs", ""))[:200], verdict, detail))
    out = ["| seeded change | property | what was changed | needs, to manifest | `./check <property>` | first report |",
           "|---|---|---|---|---|---|"]
    for r in rows:
        out.append("| " + " | ".join(x.replace("|", "\\|") for x in r) + " |")
    n = sum(1 for r in rows if r[4].startswith("caught"))
    out.append("")
    out.append(f"{n} of {len(rows)} seeded changes are reported as a VIOLATION by the check of the property they break "
               f"(exit code 1, replay file written).")
    return "\n".join(out)


def inventory_section():
    out = ["| property | obligations (theorems in `lean/WB/Props`) | Lean lines (model+lemmas+props) | theorem names |", "|---|---|---|---|"]
    tot = 0
    for l in open(os.path.join(HERE, "properties.jsonl")):
        pid = json.loads(l)["id"]
        th = theorems(pid)
        tot += len(th)
        out.append(f"| {pid} | {len(th)} | {lean_lines(pid)} | " + ", ".join(f"`{t}`" for t in th) + " |")
    out.append("")
    out.append(f"Total: {tot} property theorems.  Every one is audited on each run of its check with `#print axioms` "
               f"(allowed: propext, Classical.choice, Quot.sound).")
    return "\n".join(out)


def read_module_dicts(pid):
    path = os.path.join(HERE, "harness", "props", pid.lower() + ".py")
    out = {}
    if not os.path.exists(path):
        return out
    tree = ast.parse(open(path).read())
    for node in tree.body:
        if isinstance(node, ast.Assign):
            for t in node.targets:
                name = getattr(t, "id", None)
                if name in ("CLAIM", "TRUSTED", "RULE"):
                    try:
                        v = node.value
                        if isinstance(v, ast.Call) and getattr(v.func, "id", "") == "dict":
                            out[name] = {k.arg: ast.literal_eval(k.value) for k in v.keywords}
                        else:
                            out[name] = ast.literal_eval(v)
                    except Exception:
                        pass
    return out


def claims_section():
    out = []
    for l in open(os.path.join(HERE, "properties.jsonl")):
        p = json.loads(l)
        pid = p["id"]
        d = read_module_dicts(pid)
        c = d.get("CLAIM", {})
        out.append(f"### {pid} — {p['title']}\n")
        out.append(f"*Technique.* {c.get('technique', '')}\n")
        out.append(f"*Proved (Lean) and how it is tied to the code.* {c.get('text', '')}\n")
        out.append(f"*Assumed / trusted.* {c.get('note', '')}\n")
        tr = d.get("TRUSTED", [])
        if tr:
            out.append("*Modelled vs only checked (from the module's TRUSTED list).*\n")
            out += [f"* {t}" for t in tr]
            out.append("")
        if d.get("RULE"):
            out.append(f"*Case generation / non-triviality rule.* {d['RULE']}\n")
    return "\n".join(out)


def main():
    p = os.path.join(HERE, "DESIGN.md")
    s = open(p).read()
    for tag, text in (("SEEDED", seeded_section()), ("INVENTORY", inventory_section()), ("CLAIMS", claims_section())):
        a, b = f"<!-- AUTO:{tag}:BEGIN -->", f"<!-- AUTO:{tag}:END -->"
        if a not in s:
            print("marker missing", tag)
            continue
        s = s[:s.index(a) + len(a)] + "\n" + text + "\n" + s[s.index(b):]
    open(p, "w").write(s)
    print("DESIGN.md updated")


if __name__ == "__main__":
    main()
