"""Regenerates the machine-written parts of DESIGN.md (between the AUTO markers):
   section 7 (seeded changes: which check catches which change) and section 8 (theorem inventory per property).
   Run after `python3 harness/run_seeded.py` has written seeded/*/result.json."""
import ast
import json
import os
import re
import sys

HERE = os.path.dirname(os.path.dirname(os.path.abspath(__file__)))
sys.path.insert(0, HERE)


def theorems(pid):
    path = os.path.join(HERE, "lean", "WB", "Props", pid + ".lean")
    if not os.path.exists(path):
        return []
    return re.findall(r"^(?:@\[[^\]]*\]\s*)?theorem\s+([^\s:({\[]+)", open(path).read(), flags=re.M)


def lean_lines(pid):
    n = 0
    for sub in ("Model", "Lemmas", "Props"):
        d = os.path.join(HERE, "lean", "WB", sub)
        for fn in os.listdir(d):
            if fn.startswith(pid) and fn.endswith(".lean"):
                n += sum(1 for _ in open(os.path.join(d, fn)))
    return n


def seeded_section():
    rows = []
    d = os.path.join(HERE, "seeded")
    for name in sorted(os.listdir(d)):
        mp = os.path.join(d, name, "meta.json")
        if not os.path.exists(mp):
            continue
        meta = json.load(open(mp))
        rp = os.path.join(d, name, "result.json")
        res = json.load(open(rp)) if os.path.exists(rp) else {}
        pid = meta["property"]
        chk = res.get("checks", {}).get(pid, {})
        detail = (chk.get("detail") or [""])[0].strip()
        detail = re.sub(r"\s+", " ", detail)[:170]
        verdict = "caught" if res.get("caught") else ("not run" if not res else "MISSED")
        if res.get("tier") == "thorough" and res.get("caught"):
            verdict = "caught (thorough tier)"
        rows.append((name, pid, re.sub(r"\s+", " ", meta.get("summary", ""))[:230],
                     re.sub(r"\s+", " ", meta.get("needs", ""))[:200], verdict, detail))
    out = ["| seeded change | property | what was changed | needs, to manifest | `./check <property>` | first report |",
           "|---|---|---|---|---|---|"]
    for r in rows:
        out.append("| " + " | ".join(x.replace("|", "\\|") for x in r) + " |")
    n = sum(1 for r in rows if r[4].startswith("caught"))
    out.append("")
    out.append(f"{n} of {len(rows)} seeded changes are reported as a VIOLATION by the check of the property they break "
               f"(exit code 1, replay file written).")
    return "\n".join(out)


def inventory_section():
    out = ["| property | obligations (theorems in `lean/WB/Props`) | Lean lines (model+lemmas+props) | theorem names |", "|---|---|---|---|"]
    tot = 0
    for l in open(os.path.join(HERE, "properties.jsonl")):
        pid = json.loads(l)["id"]
        th = theorems(pid)
        tot += len(th)
        out.append(f"| {pid} | {len(th)} | {lean_lines(pid)} | " + ", ".join(f"`{t}`" for t in th) + " |")
    out.append("")
    out.append(f"Total: {tot} property theorems.  Every one is audited on each run of its check with `#print axioms` "
               f"(allowed: propext, Classical.choice, Quot.sound).")
    return "\n".join(out)


def main():
    p = os.path.join(HERE, "DESIGN.md")
    s = open(p).read()
    for tag, text in (("SEEDED", seeded_section()), ("INVENTORY", inventory_section())):
        a, b = f"<!-- AUTO:{tag}:BEGIN -->", f"<!-- AUTO:{tag}:END -->"
        if a not in s:
            print("marker missing", tag)
            continue
        s = s[:s.index(a) + len(a)] + "\n" + text + "\n" + s[s.index(b):]
    open(p, "w").write(s)
    print("DESIGN.md updated")


if __name__ == "__main__":
    main()
