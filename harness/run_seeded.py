"""Run the checks against the seeded changes kept under /verif/seeded/<name>/ (patch.diff, demo.py, meta.json).

    python3 harness/run_seeded.py [name ...] [--tier quick|thorough] [--keep]

For each seeded change: a scratch worktree of /repo is created under /tmp, the patch applied, the
demonstration run with and without the patch, and `WB_REPO=<worktree> ./check <property>` executed.  The
outcome (caught / missed, exit code, VIOLATION line) is printed and written to seeded/<name>/result.json.
/repo itself is never modified.
"""
import json
import os
import subprocess
import sys
import shutil

VERIF = os.path.dirname(os.path.dirname(os.path.abspath(__file__)))
PY = "/venv/bin/python"


def sh(cmd, cwd=None, env=None, timeout=3600):
    p = subprocess.run(cmd, shell=True, cwd=cwd, env=env, capture_output=True, text=True, timeout=timeout)
    return p.returncode, (p.stdout + p.stderr)


def main():
    args = [a for a in sys.argv[1:] if not a.startswith("--")]
    tier = "quick"
    if "--tier" in sys.argv:
        tier = sys.argv[sys.argv.index("--tier") + 1]
        args = [a for a in args if a != tier]
    names = args or sorted(os.listdir(os.path.join(VERIF, "seeded")))
    summary = []
    for name in names:
        d = os.path.join(VERIF, "seeded", name)
        if not os.path.exists(os.path.join(d, "patch.diff")):
            continue
        meta = json.load(open(os.path.join(d, "meta.json")))
        pid = meta["property"]
        wt = f"/tmp/seeded_wt_{name}_{os.getpid()}"
        sh(f"git -C /repo worktree add -f {wt} HEAD")
        res = {"name": name, "property": pid, "tier": tier}
        try:
            env = dict(os.environ, PYTHONPATH=wt, PYTHONWARNINGS="ignore")
            demo = os.path.join(d, "demo.py")
            if os.path.exists(demo):
                rc0, out0 = sh(f"{PY} -W ignore {demo}", cwd=wt, env=env)
                res["demo_unpatched_rc"] = rc0
            rc, out = sh(f"git apply {os.path.join(d, 'patch.diff')}", cwd=wt)
            if rc != 0:
                res["error"] = "patch does not apply: " + out[-300:]
                summary.append(res)
                continue
            if os.path.exists(demo):
                rc1, out1 = sh(f"{PY} -W ignore {demo}", cwd=wt, env=env)
                res["demo_patched_rc"] = rc1
                res["demo_patched_tail"] = out1.strip().split("\n")[-1][:300]
            checks = meta.get("also_check", [])
            rcs = {}
            for p in [pid] + checks:
                env2 = dict(os.environ, WB_REPO=wt)
                rc, out = sh(f"./check {p} --tier {tier}", cwd=VERIF, env=env2, timeout=7200)
                viol = [l for l in out.split("\n") if l.startswith("VIOLATION")]
                first = [l for l in out.split("\n") if "first failure" in l or l.strip().startswith("broken:")]
                rcs[p] = {"rc": rc, "violation": viol[:1], "detail": first[:1]}
            res["checks"] = rcs
            res["caught"] = rcs[pid]["rc"] == 1
            res["caught_by_any"] = any(v["rc"] == 1 for v in rcs.values())
        finally:
            sh(f"git -C /repo worktree remove --force {wt}")
            shutil.rmtree(wt, ignore_errors=True)
        json.dump(res, open(os.path.join(d, "result.json"), "w"), indent=1)
        summary.append(res)
        print(f"{name:28s} {pid}  demo unpatched/patched rc = {res.get('demo_unpatched_rc')}/{res.get('demo_patched_rc')}  "
              f"check rc = {res.get('checks', {}).get(pid, {}).get('rc')}  -> {'CAUGHT' if res.get('caught') else 'MISSED'}"
              f"  {str(res.get('checks', {}).get(pid, {}).get('detail'))[:160]}")
    n = sum(1 for r in summary if r.get("caught"))
    print(f"caught {n} of {len(summary)}")


if __name__ == "__main__":
    main()
