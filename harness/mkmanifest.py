"""writes MANIFEST.json from harness/registry.py"""
import json
import os
import sys

HERE = os.path.dirname(os.path.dirname(os.path.abspath(__file__)))
sys.path.insert(0, HERE)
from harness.registry import PENDING_REASON, NOT_APPLICABLE, READY  # noqa
import ast


def read_claim(pid):
    path = os.path.join(HERE, "harness", "props", pid.lower() + ".py")
    if not os.path.exists(path):
        return None
    tree = ast.parse(open(path).read())
    for node in tree.body:
        if isinstance(node, ast.Assign) and any(getattr(t, "id", None) == "CLAIM" for t in node.targets):
            v = node.value
            if isinstance(v, ast.Call) and getattr(v.func, "id", "") == "dict":
                return {k.arg: ast.literal_eval(k.value) for k in v.keywords}
            return ast.literal_eval(v)
    return None


CLAIMS = {}
for l in open(os.path.join(HERE, "properties.jsonl")):
    _pid = json.loads(l)["id"]
    _c = read_claim(_pid)
    if _c:
        CLAIMS[_pid] = _c

props = [json.loads(l) for l in open(os.path.join(HERE, "properties.jsonl"))]
checks, na = [], []
for p in props:
    pid = p["id"]
    have = os.path.exists(os.path.join(HERE, "harness", "props", pid.lower() + ".py")) and \
        os.path.exists(os.path.join(HERE, "lean", "WB", "Props", pid + ".lean"))
    if pid in CLAIMS and have and pid in READY:
        c = CLAIMS[pid]
        checks.append({
            "property_id": pid,
            "quick_cmd": f"./check {pid} --tier quick",
            "thorough_cmd": f"./check {pid} --tier thorough",
            "evidence_file": f"evidence/{pid}.json",
            "replay_cmd_template": f"./check {pid} --replay {{path}}",
            "engine": "lean4-proof+correspondence",
            "level_claimed": {"category": "proof", "text": c["text"], "design_ref": c["design"]},
            "level_note": c["note"],
            "technique": c["technique"],
        })
    else:
        na.append({"property_id": pid, "reason": NOT_APPLICABLE.get(pid, PENDING_REASON)})

manifest = {
    "version": 1,
    "setup_cmd": "cd lean && (lake build || echo some-modules-failed-to-build-the-affected-checks-will-report-it)",
    "hooks": {
        "guard": "WANNIERBERRI_VERIF",
        "enable": "no source hooks are needed: checks import /repo's working tree in-process (PYTHONPATH=/repo) and "
                  "observe run() through its own restart files, a stub `ray` module, a patched glob.glob, and a default fout_name for run() inside the "
                  "check's scratch directory (in the harness process only; /repo's source is not edited)",
        "baseline_off_cmd": "cd /repo && /venv/bin/python -m pytest -ra -q -p no:cacheprovider --timeout=900 "
                            "--continue-on-collection-errors",
        "source_commits": [],
        "add_only": True,
    },
    "engines": [{
        "name": "lean4-proof+correspondence",
        "path": "lean/ (models WB/Model, theorems WB/Props) + harness/ (correspondence and oracles) + check",
        "serves_properties": [c["property_id"] for c in checks],
        "kind_free_text": "Lean 4 theorems about hand-written executable models; the models are tied to /repo on every "
                          "run by a differential correspondence check (model driver vs real code on the same exact "
                          "inputs) and a property oracle on the real code that doubles as the failing-input search",
    }],
    "checks": checks,
    "not_applicable": na,
    "notes": "Every check: (1) rebuilds/audits the Lean theorems of the property (#print axioms, banned-construct grep), "
             "(2) runs the model and the real code on the same inputs and diffs, (3) checks the property on the real "
             "code.  Exit 0 = held; exit 1 + VIOLATION line = violation; exit 2 = infrastructure problem.",
}
json.dump(manifest, open(os.path.join(HERE, "MANIFEST.json"), "w"), indent=1)
print(f"{len(checks)} checks, {len(na)} not claimed")
