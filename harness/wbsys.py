"""Helpers that build small random wannier-berri systems from the REAL code (used by many oracles)."""
import numpy as np

from .common import quiet

with quiet():
    import wannierberri as wb  # noqa
    from wannierberri.system.system_random import get_system_random  # noqa


def rand_lattice(rs, kind=None):
    """a well-conditioned right-handed lattice"""
    kind = kind or rs.choice(["cubic", "ortho", "triclinic", "hex"])
    if kind == "cubic":
        return np.eye(3) * rs.uniform(0.8, 1.5)
    if kind == "ortho":
        return np.diag(rs.uniform(0.8, 1.6, 3))
    if kind == "hex":
        a, c = rs.uniform(0.9, 1.4, 2)
        return np.array([[a, 0, 0], [-a / 2, a * np.sqrt(3) / 2, 0], [0, 0, c]])
    while True:
        L = np.eye(3) + rs.uniform(-0.35, 0.35, (3, 3))
        if np.linalg.det(L) > 0.4:
            return L


def hermitize(system):
    """make every real-space matrix satisfy X(-R) = X(R)^dagger.  The random generator's R set is in general NOT
    closed under R -> -R, so first complete it (zero-padding the matrices), then average X with its conjugate."""
    from wannierberri.fourier.rvectors import Rvectors
    iR = [tuple(int(x) for x in r) for r in system.rvec.iRvec]
    have = set(iR)
    extra = [tuple(-x for x in r) for r in iR if tuple(-x for x in r) not in have]
    extra = list(dict.fromkeys(extra))
    if extra:
        new_iR = np.array(iR + extra, dtype=int)
        for key in list(system._XX_R):
            X = system.get_R_mat(key)
            pad = np.zeros((len(extra),) + X.shape[1:], dtype=X.dtype)
            system._XX_R[key] = np.concatenate([X, pad], axis=0)
        system.rvec = Rvectors(lattice=system.real_lattice, iRvec=new_iR, shifts_left_red=system.wannier_centers_red)
        if hasattr(system, "iRvec"):
            try:
                system.iRvec = new_iR
            except Exception:
                pass
    for key in list(system._XX_R):
        X = system.get_R_mat(key)
        system._XX_R[key] = 0.5 * (X + system.rvec.conj_XX_R(X))
    system.clear_cached_R()


def rand_system(rs, num_wann=3, nR=7, max_R=2, lattice=None, matrices=("Ham", "AA"), centers=None,
                hermitian=True, scale=1.0, **kw):
    """random System_R built by the repository's own generator; `rs` is a numpy RandomState/Generator-like
    object with .randint/.uniform (we reseed numpy's global RNG from it because the generator uses it)."""
    seed = int(rs.randint(0, 2**31 - 1)) if hasattr(rs, "randint") else int(rs.integers(0, 2**31 - 1))
    np.random.seed(seed)
    flags = {}
    for m in matrices:
        if m == "Ham":
            continue
        flags.setdefault("matrices_extra", []).append(m)
    params = dict(kw)
    if "AA" in matrices:
        params["berry"] = True
    if "BB" in matrices or "CC" in matrices:
        params["morb"] = True
    if "SS" in matrices:
        params["spin"] = True
    with quiet():
        if lattice is None:
            lattice = rand_lattice(np.random)
        s = get_system_random(num_wann, nRvec=nR, max_R=max_R, real_lattice=lattice, **params)
        if centers is not None:
            from wannierberri.fourier.rvectors import Rvectors
            s.wannier_centers_cart = np.array(centers, dtype=float).dot(s.real_lattice)
            s.clear_cached_wcc()
            s.rvec = Rvectors(lattice=s.real_lattice, iRvec=s.rvec.iRvec, shifts_left_red=s.wannier_centers_red)
        if scale != 1.0:
            for key in list(s._XX_R):
                s.set_R_mat(key, s.get_R_mat(key) * scale, reset=True)
        if hermitian:
            hermitize(s)
    return s


def evalk(system, k, quantities, **kw):
    with quiet():
        return wb.evaluate_k(system, k=np.array(k, dtype=float), quantities=list(quantities), return_single_as_dict=True, **kw)
